#!/bin/sh
# usage: ./check.sh <property-id> quick|thorough   |   ./check.sh replay <file>
cd "$(dirname "$0")" || exit 2
export GOFLAGS=-mod=mod GOPROXY=off GOSUMDB=off GOTOOLCHAIN=local
if [ ! -x bin/zsym ] || [ -n "$(find engine -name '*.go' -newer bin/zsym 2>/dev/null)" ]; then
  (cd engine && go build -o ../bin/zsym .) || { echo "cannot build engine"; exit 2; }
fi
if [ "$1" = "replay" ]; then
  exec ./bin/zsym replay "$2"
fi
exec ./bin/zsym check -prop "$1" -tier "${2:-quick}"
