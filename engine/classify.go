package main

// Instruction families by bit fields (only used to select which encodings a
// property's check looks at; C01 looks at all of them).

func implDD(op int) bool {
	switch op {
	case 0x09, 0x19, 0x29, 0x39, 0x21, 0x22, 0x23, 0x24, 0x25, 0x26, 0x2a, 0x2b, 0x2c, 0x2d, 0x2e,
		0x34, 0x35, 0x36, 0xe1, 0xe3, 0xe5, 0xe9, 0xf9:
		return true
	}
	return op >= 0x40 && op <= 0xbf && op != 0x76
}

func implED(op int) bool {
	x, y, z := op>>6, (op>>3)&7, op&7
	if x == 1 {
		switch z {
		case 0, 1:
			return y != 6
		case 2, 3:
			return true
		case 4:
			return op == 0x44
		case 5:
			return op == 0x45 || op == 0x4d
		case 6:
			return op == 0x46 || op == 0x56 || op == 0x5e
		case 7:
			return y <= 5
		}
	}
	if x == 2 {
		return y >= 4 && z <= 3
	}
	return false
}

func implemented(e Enc) bool {
	switch e.Tbl {
	case 0, 1:
		return true
	case 2:
		return implED(e.Op)
	case 3, 4:
		return implDD(e.Op)
	}
	return e.Op&7 == 6
}

func classifyMain(op int) string {
	x, y, z := op>>6, (op>>3)&7, op&7
	q := y & 1
	p := y >> 1
	switch x {
	case 0:
		switch z {
		case 0:
			if y == 0 {
				return "ctl"
			}
			if y == 1 {
				return "load"
			}
			return "jump"
		case 1:
			if q == 0 {
				return "load"
			}
			return "arith16"
		case 2:
			return "load"
		case 3:
			return "incdec16"
		case 4, 5:
			return "alu8"
		case 6:
			return "load"
		}
		if y <= 3 {
			return "rot"
		}
		return "alu8"
	case 1:
		if op == 0x76 {
			return "ctl"
		}
		return "load"
	case 2:
		return "alu8"
	}
	switch z {
	case 0:
		return "ret"
	case 1:
		if q == 0 {
			return "stack"
		}
		switch p {
		case 0:
			return "ret"
		case 2:
			return "jump"
		}
		return "load"
	case 2:
		return "jump"
	case 3:
		switch y {
		case 0:
			return "jump"
		case 2, 3:
			return "io"
		case 4:
			return "stack"
		case 5:
			return "load"
		}
		return "ctl"
	case 4:
		return "call"
	case 5:
		if q == 0 {
			return "stack"
		}
		return "call"
	case 6:
		return "alu8"
	}
	return "call"
}

func classify(e Enc) string {
	if !implemented(e) {
		return "invalid"
	}
	switch e.Tbl {
	case 0, 3, 4:
		return classifyMain(e.Op)
	case 1, 5, 6:
		if e.Op>>6 == 0 {
			return "rot"
		}
		return "bit"
	}
	op := e.Op
	x, y, z := op>>6, (op>>3)&7, op&7
	if x == 2 {
		return "block"
	}
	switch z {
	case 0, 1:
		return "io"
	case 2:
		return "arith16"
	case 3:
		return "load"
	case 4:
		return "alu8"
	case 5:
		return "ret"
	case 6:
		return "ctl"
	}
	if y <= 3 {
		return "ir"
	}
	return "rot"
}

func encsOf(classes ...string) []Enc {
	var out []Enc
	for _, e := range allEncodings() {
		c := classify(e)
		for _, k := range classes {
			if c == k {
				out = append(out, e)
			}
		}
	}
	return out
}
