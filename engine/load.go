package main

// Loading /repo's current working tree with the harness overlay, and native
// replay through `go test -overlay`.

import (
	"sync"
	"encoding/json"
	"fmt"
	"go/token"
	"go/types"
	"os"
	"os/exec"
	"path/filepath"
	"sort"
	"strings"
	"time"

	"golang.org/x/tools/go/packages"
	"golang.org/x/tools/go/ssa"
	"golang.org/x/tools/go/ssa/ssautil"
)

var repoDir = "/repo"
var verifDir = "/verif"

// harness directory name -> package directory relative to the repo root, package name
var harnessPkgs = map[string][2]string{
	"z80":     {".", "z80"},
	"tinycpm": {"internal/tinycpm", "tinycpm"},
	"zex":     {"internal/zex", "zex"},
	"cim2bin": {"cmd/cim2bin", "main"},
	"cim2cas": {"cmd/cim2cas", "main"},
}

type Loaded struct {
	prog *ssa.Program
	fset *token.FileSet
	pkgs map[string]*ssa.Package // by harness dir name
	tpk  map[string]*packages.Package
	// overlay: virtual path -> real file (for go test -overlay)
	overlayFiles map[string]string
	tmp          string
	loadTime     time.Duration
	watchdog     string // when set, native replays run under this watchdog (termination probes)
	wdMu         sync.Mutex
}

func (l *Loaded) pos(p token.Pos) string {
	if !p.IsValid() {
		return ""
	}
	ps := l.fset.Position(p)
	return fmt.Sprintf("%s:%d", filepath.Base(ps.Filename), ps.Line)
}

func goEnv() []string {
	env := os.Environ()
	env = append(env, "GOFLAGS=-mod=mod", "GOPROXY=off", "GOSUMDB=off", "GOTOOLCHAIN=local")
	return env
}

// Load builds SSA for the repo packages named by dirs (harness dir names).
func Load(dirs []string) (*Loaded, error) {
	start := time.Now()
	tmp, err := os.MkdirTemp("", "zsym-ov-")
	if err != nil {
		return nil, err
	}
	l := &Loaded{pkgs: map[string]*ssa.Package{}, tpk: map[string]*packages.Package{}, overlayFiles: map[string]string{}, tmp: tmp}
	overlay := map[string][]byte{}
	lib, err := os.ReadFile(filepath.Join(verifDir, "harness/lib/vlib.go"))
	if err != nil {
		return nil, err
	}
	var patterns []string
	for _, d := range dirs {
		info, ok := harnessPkgs[d]
		if !ok {
			return nil, fmt.Errorf("unknown harness dir %s", d)
		}
		pdir := filepath.Join(repoDir, info[0])
		patterns = append(patterns, "./"+info[0])
		// library with the right package clause
		libsrc := strings.Replace(string(lib), "package PKGNAME", "package "+info[1], 1)
		libreal := filepath.Join(tmp, d+"_vlib.go")
		if err := os.WriteFile(libreal, []byte(libsrc), 0o644); err != nil {
			return nil, err
		}
		v := filepath.Join(pdir, "zz_v_lib.go")
		overlay[v] = []byte(libsrc)
		l.overlayFiles[v] = libreal
		files, _ := filepath.Glob(filepath.Join(verifDir, "harness", d, "*.go"))
		sort.Strings(files)
		for _, f := range files {
			src, err := os.ReadFile(f)
			if err != nil {
				return nil, err
			}
			v := filepath.Join(pdir, "zz_v_"+filepath.Base(f))
			overlay[v] = src
			l.overlayFiles[v] = f
		}
	}
	// repo-module dependencies need bodies too (the root package z80 is what
	// tinycpm and the commands execute)
	hasRoot := false
	for _, pt := range patterns {
		if pt == "./." {
			hasRoot = true
		}
	}
	if !hasRoot {
		patterns = append(patterns, "./.")
	}
	// pure-Go generic helper packages are loaded with syntax so that their
	// (instantiated) bodies can be interpreted like repo code
	patterns = append(patterns, "slices", "cmp", "bytes")
	cfg := &packages.Config{
		Mode:    packages.LoadSyntax | packages.NeedModule,
		Dir:     repoDir,
		Overlay: overlay,
		Env:     goEnv(),
	}
	pkgs, err := packages.Load(cfg, patterns...)
	if err != nil {
		return nil, err
	}
	var errs []string
	packages.Visit(pkgs, nil, func(p *packages.Package) {
		for _, e := range p.Errors {
			errs = append(errs, e.Error())
		}
	})
	if len(errs) > 0 {
		return nil, fmt.Errorf("package errors:\n%s", strings.Join(errs, "\n"))
	}
	prog, spkgs := ssautil.Packages(pkgs, ssa.InstantiateGenerics)
	// also build bodies of repo-module dependencies (e.g. z80 when loading tinycpm)
	prog.Build()
	for _, p := range prog.AllPackages() {
		if strings.HasPrefix(p.Pkg.Path(), repoMod) {
			p.Build()
		}
	}
	l.prog = prog
	if len(pkgs) > 0 {
		l.fset = pkgs[0].Fset
	}
	for i, p := range pkgs {
		for d, info := range harnessPkgs {
			want := repoMod
			if info[0] != "." {
				want = repoMod + "/" + info[0]
			}
			if p.PkgPath == want && spkgs[i] != nil {
				for _, dd := range dirs {
					if dd == d {
						l.pkgs[d] = spkgs[i]
						l.tpk[d] = p
					}
				}
			}
		}
	}
	for _, d := range dirs {
		if l.pkgs[d] == nil {
			return nil, fmt.Errorf("package for harness dir %s not loaded", d)
		}
	}
	l.loadTime = time.Since(start)
	return l, nil
}

func (l *Loaded) Close() {
	if l.tmp != "" {
		os.RemoveAll(l.tmp)
	}
}

// harnessFuncs lists entry functions (V + uppercase/digit, all-int params).
func (l *Loaded) harnessFuncs(dir string) []*ssa.Function {
	var out []*ssa.Function
	p := l.pkgs[dir]
	for _, m := range p.Members {
		fn, ok := m.(*ssa.Function)
		if !ok || len(fn.Name()) < 2 || fn.Name()[0] != 'V' {
			continue
		}
		okp := true
		for _, prm := range fn.Params {
			if b, isb := prm.Type().Underlying().(*types.Basic); !isb || b.Kind() != types.Int {
				okp = false
			}
		}
		if okp && fn.Signature.Results().Len() == 0 {
			out = append(out, fn)
		}
	}
	sort.Slice(out, func(i, j int) bool { return out[i].Name() < out[j].Name() })
	return out
}

// ---------------------------------------------------------------------------
// native replay

type ReplayFile struct {
	Property   string              `json:"property,omitempty"`
	Obligation string              `json:"obligation,omitempty"`
	Dir        string              `json:"dir"`
	Harness    string              `json:"harness"`
	Params     []int               `json:"params"`
	Vals       map[string]uint64   `json:"vals"`
	Arrays     map[string]ReplayAr `json:"arrays"`
	Failed     []string            `json:"failed,omitempty"`
	Detail     string              `json:"detail,omitempty"`
	Solver     string              `json:"solver,omitempty"`
	Native     string              `json:"native_replay,omitempty"`
}

type ReplayAr struct {
	Def uint64            `json:"def"`
	M   map[string]uint64 `json:"m"`
}

type NativeResult struct {
	Failed  []string          `json:"failed"`
	Unmet   int               `json:"unmet"`
	Panic   string            `json:"panic"`
	Post    map[string]uint64 `json:"post"`
	Harness string            `json:"harness"`
	Hang    bool              `json:"hang"`
}

// nativeTestSrc generates the _test.go driver for package dir.
func (l *Loaded) nativeTestSrc(dir string) string {
	info := harnessPkgs[dir]
	var sb strings.Builder
	fmt.Fprintf(&sb, "package %s\n\nimport (\n\t\"bufio\"\n\t\"encoding/json\"\n\t\"fmt\"\n\t\"os\"\n\t\"testing\"\n\t\"time\"\n)\n\n", info[1])
	sb.WriteString(`type vNativeResult struct {
	Failed  []string          ` + "`json:\"failed\"`" + `
	Unmet   int               ` + "`json:\"unmet\"`" + `
	Panic   string            ` + "`json:\"panic\"`" + `
	Post    map[string]uint64 ` + "`json:\"post\"`" + `
	Harness string            ` + "`json:\"harness\"`" + `
	Hang    bool              ` + "`json:\"hang\"`" + `
}

func vRunOne(path string) (res vNativeResult) {
	if err := vLoadReplay(path); err != nil {
		res.Panic = "load: " + err.Error()
		return
	}
	res.Harness = vReplay.Harness
	defer func() {
		if r := recover(); r != nil {
			if _, ok := r.(vUnmetAssumption); ok {
				res.Unmet = vUnmet
			} else if _, ok := r.(vStopped); ok {
				// harness bound reached: not a failure
			} else {
				res.Panic = fmt.Sprint(r)
			}
		}
		res.Failed = vFailed
		res.Post = vPost
	}()
	p := vReplay.Params
	switch vReplay.Harness {
`)
	for _, fn := range l.harnessFuncs(dir) {
		fmt.Fprintf(&sb, "\tcase %q:\n\t\tif len(p) != %d {\n\t\t\tpanic(\"param count\")\n\t\t}\n\t\t%s(", fn.Name(), len(fn.Params), fn.Name())
		for i := range fn.Params {
			if i > 0 {
				sb.WriteString(", ")
			}
			fmt.Fprintf(&sb, "p[%d]", i)
		}
		sb.WriteString(")\n")
	}
	sb.WriteString(`	default:
		panic("unknown harness " + vReplay.Harness)
	}
	return
}

// TestVReplay replays every file listed (one path per line) in $VERIF_REPLAY_LIST
// and writes one JSON result per line to $VERIF_REPLAY_OUT.
func TestVReplay(t *testing.T) {
	lst := os.Getenv("VERIF_REPLAY_LIST")
	if lst == "" {
		t.Skip("no replay list")
	}
	f, err := os.Open(lst)
	if err != nil {
		t.Fatal(err)
	}
	defer f.Close()
	out, err := os.Create(os.Getenv("VERIF_REPLAY_OUT"))
	if err != nil {
		t.Fatal(err)
	}
	defer out.Close()
	w := bufio.NewWriter(out)
	defer w.Flush()
	sc := bufio.NewScanner(f)
	for sc.Scan() {
		var res vNativeResult
		if wd := os.Getenv("VERIF_REPLAY_WATCHDOG"); wd != "" {
			// termination probe: the harness runs under a watchdog; if it has not come
			// back in time the result says so and the process ends (the harness
			// goroutine is still spinning)
			d, _ := time.ParseDuration(wd)
			done := make(chan vNativeResult, 1)
			path := sc.Text()
			go func() { done <- vRunOne(path) }()
			select {
			case res = <-done:
			case <-time.After(d):
				res = vNativeResult{Hang: true, Harness: vReplay.Harness}
				b, _ := json.Marshal(res)
				w.Write(b)
				w.WriteByte('\n')
				w.Flush()
				out.Close()
				os.Exit(0)
			}
		} else {
			res = vRunOne(sc.Text())
		}
		b, _ := json.Marshal(res)
		w.Write(b)
		w.WriteByte('\n')
		if len(res.Failed) > 0 || res.Panic != "" {
			t.Logf("replay %s: failed=%v panic=%q", sc.Text(), res.Failed, res.Panic)
		}
	}
}
`)
	return sb.String()
}

// RunNative replays the given files against the real build of package dir.
func (l *Loaded) RunNative(dir string, files []string, race bool) ([]NativeResult, string, error) {
	info := harnessPkgs[dir]
	testReal := filepath.Join(l.tmp, dir+"_replay_test.go")
	if err := os.WriteFile(testReal, []byte(l.nativeTestSrc(dir)), 0o644); err != nil {
		return nil, "", err
	}
	ov := struct{ Replace map[string]string }{map[string]string{}}
	for v, r := range l.overlayFiles {
		ov.Replace[v] = r
	}
	ov.Replace[filepath.Join(repoDir, info[0], "zz_v_replay_test.go")] = testReal
	// native-only companions (model validation, translator validation)
	nfiles, _ := filepath.Glob(filepath.Join(verifDir, "harness", dir, "native", "*.go"))
	for _, f := range nfiles {
		ov.Replace[filepath.Join(repoDir, info[0], "zz_v_"+filepath.Base(f))] = f
	}
	ovPath := filepath.Join(l.tmp, dir+"_overlay.json")
	b, _ := json.Marshal(ov)
	if err := os.WriteFile(ovPath, b, 0o644); err != nil {
		return nil, "", err
	}
	lst := filepath.Join(l.tmp, dir+"_list.txt")
	outp := filepath.Join(l.tmp, dir+"_out.jsonl")
	os.WriteFile(lst, []byte(strings.Join(files, "\n")+"\n"), 0o644)
	os.Remove(outp)
	args := []string{"test", "-vet=off", "-count=1", "-overlay", ovPath, "-run", "^TestVReplay$", "-timeout", "20m"}
	if race {
		args = append(args, "-race")
	}
	args = append(args, "./"+info[0])
	cmd := exec.Command("go", args...)
	cmd.Dir = repoDir
	cmd.Env = append(goEnv(), "VERIF_REPLAY_LIST="+lst, "VERIF_REPLAY_OUT="+outp)
	if l.watchdog != "" {
		cmd.Env = append(cmd.Env, "VERIF_REPLAY_WATCHDOG="+l.watchdog)
	}
	outb, err := cmd.CombinedOutput()
	data, rerr := os.ReadFile(outp)
	if rerr != nil {
		return nil, string(outb), fmt.Errorf("native run produced no output: %v / %v", err, rerr)
	}
	var res []NativeResult
	for _, line := range strings.Split(strings.TrimSpace(string(data)), "\n") {
		if line == "" {
			continue
		}
		var r NativeResult
		if err := json.Unmarshal([]byte(line), &r); err != nil {
			return nil, string(outb), err
		}
		res = append(res, r)
	}
	if len(res) != len(files) {
		return res, string(outb), fmt.Errorf("native run returned %d results for %d files", len(res), len(files))
	}
	return res, string(outb), nil
}

// GoTestNative runs `go test -run pattern` on package dir with the harness
// overlay and extra environment; returns combined output.
func (l *Loaded) GoTestNative(dir, pattern string, env []string, timeout string) (string, error) {
	info := harnessPkgs[dir]
	testReal := filepath.Join(l.tmp, dir+"_replay_test.go")
	if err := os.WriteFile(testReal, []byte(l.nativeTestSrc(dir)), 0o644); err != nil {
		return "", err
	}
	ov := struct{ Replace map[string]string }{map[string]string{}}
	for v, r := range l.overlayFiles {
		ov.Replace[v] = r
	}
	ov.Replace[filepath.Join(repoDir, info[0], "zz_v_replay_test.go")] = testReal
	nfiles, _ := filepath.Glob(filepath.Join(verifDir, "harness", dir, "native", "*.go"))
	for _, f := range nfiles {
		ov.Replace[filepath.Join(repoDir, info[0], "zz_v_"+filepath.Base(f))] = f
	}
	ovPath := filepath.Join(l.tmp, dir+"_overlay2.json")
	b, _ := json.Marshal(ov)
	if err := os.WriteFile(ovPath, b, 0o644); err != nil {
		return "", err
	}
	cmd := exec.Command("go", "test", "-vet=off", "-count=1", "-overlay", ovPath, "-run", pattern, "-timeout", timeout, "./"+info[0])
	cmd.Dir = repoDir
	cmd.Env = append(goEnv(), env...)
	out, err := cmd.CombinedOutput()
	return string(out), err
}
