package main

// Translator validation: the harness VTV is run natively on concrete vectors
// and through the encoder with the same vectors bound; every observation must
// agree.  This checks the encoder (SSA interpreter, simplifier, term
// semantics), not the property.

import (
	"fmt"
	"math/rand"
	"os"
	"path/filepath"
	"sort"
	"strings"
)

type TVResult struct {
	Vectors    int
	Agreed     int
	Mismatches []string
	NoPath     int
}

var corner = []uint64{0, 1, 0x7f, 0x80, 0xff, 0xfe, 0x0f, 0xf0, 0x7fff, 0x8000, 0xffff, 0xfffe, 0x00ff, 0xff00}

func randVal(rng *rand.Rand, w int) uint64 {
	var v uint64
	if rng.Intn(3) == 0 {
		v = corner[rng.Intn(len(corner))]
	} else {
		v = rng.Uint64()
	}
	if w == 0 {
		return v & 1
	}
	return v & mask(w)
}

func (r *Runner) TranslatorValidation(encs []Enc, perEnc int, seed int64) TVResult {
	var res TVResult
	jobs := make([]Job, len(encs))
	for i, e := range encs {
		jobs[i] = Job{Dir: "z80", Harness: "VTV", Params: []int{e.Tbl, e.Op}, Label: "VTV/" + e.String(), KeepPaths: true}
	}
	// operator micro-functions: 40 vectors' worth of jobs (each job gets perEnc vectors)
	for i := 0; i < 40; i++ {
		jobs = append(jobs, Job{Dir: "z80", Harness: "VMicro", Label: fmt.Sprintf("VMicro/%d", i), KeepPaths: true})
	}
	// aggregate encodings: few jobs, each forks on its symbolic counts
	nAgg := 1
	if perEnc > 1 {
		nAgg = 3
	}
	for i := 0; i < nAgg; i++ {
		jobs = append(jobs, Job{Dir: "z80", Harness: "VMicroAgg", Label: fmt.Sprintf("VMicroAgg/%d", i), KeepPaths: true, NoPanic: true, MaxForks: 256, MaxPaths: 512, BudgetS: 30})
	}
	out := r.RunJobs(jobs)
	rng := rand.New(rand.NewSource(seed + 12345))
	tmp, err := os.MkdirTemp("", "zsym-tv-")
	if err != nil {
		res.Mismatches = append(res.Mismatches, err.Error())
		return res
	}
	defer os.RemoveAll(tmp)
	type vec struct {
		file   string
		expect map[string]uint64
		label  string
	}
	var vecs []vec
	for _, jr := range out {
		if jr.Err != "" || len(jr.PathData) == 0 {
			res.Mismatches = append(res.Mismatches, jr.Job.Label+": "+jr.Err+strings.Join(jr.Undecided, ";"))
			continue
		}
		// variables of all paths
		var all []*Term
		for _, pd := range jr.PathData {
			all = append(all, pd.PCs...)
			for _, o := range pd.Observed {
				all = append(all, o.Term)
			}
		}
		vars := collectVars(all...)
		for k := 0; k < perEnc; k++ {
			as := &Assign{bv: map[string]uint64{}, arr: map[string]*arrVal{}}
			rf := &ReplayFile{Dir: "z80", Harness: jr.Job.Harness, Params: jr.Job.Params, Vals: map[string]uint64{}, Arrays: map[string]ReplayAr{}}
			if rf.Params == nil {
				rf.Params = []int{}
			}
			for _, v := range vars {
				if v.w >= 0 {
					x := randVal(rng, v.w)
					as.bv[v.name] = x
					rf.Vals[v.name] = x
				} else {
					av := &arrVal{def: randVal(rng, 8), m: map[uint64]uint64{}}
					ra := ReplayAr{Def: av.def, M: map[string]uint64{}}
					for j := 0; j < 24; j++ {
						a := randVal(rng, 16)
						b := randVal(rng, 8)
						av.m[a] = b
						ra.M[fmt.Sprint(a)] = b
					}
					as.arr[v.name] = av
					rf.Arrays[v.name] = ra
				}
			}
			// which path does this vector take?
			var taken *PathResult
			for i := range jr.PathData {
				pd := &jr.PathData[i]
				memo := map[int]interface{}{}
				ok := true
				for _, c := range pd.PCs {
					if evalTerm(c, as, memo).(uint64) == 0 {
						ok = false
						break
					}
				}
				if ok {
					if taken != nil {
						res.Mismatches = append(res.Mismatches, jr.Job.Label+": vector satisfies two path conditions")
					}
					taken = pd
				}
			}
			if taken == nil || taken.Status != "ok" {
				res.NoPath++
				continue
			}
			exp := map[string]uint64{}
			memo := map[int]interface{}{}
			for _, o := range taken.Observed {
				exp[o.Name] = evalTerm(o.Term, as, memo).(uint64)
			}
			f := filepath.Join(tmp, fmt.Sprintf("v%06d.json", len(vecs)))
			b, _ := jsonIndent(rf)
			os.WriteFile(f, b, 0o644)
			vecs = append(vecs, vec{f, exp, jr.Job.Label})
		}
	}
	if len(vecs) == 0 {
		return res
	}
	files := make([]string, len(vecs))
	for i, v := range vecs {
		files[i] = v.file
	}
	nat, outp, err := r.L.RunNative("z80", files, false)
	if err != nil {
		res.Mismatches = append(res.Mismatches, "native run failed: "+err.Error()+" "+lastLines(outp, 3))
		return res
	}
	for i, v := range vecs {
		res.Vectors++
		got := nat[i].Post
		var diff []string
		for k, e := range v.expect {
			if g, ok := got[k]; !ok || g != e {
				diff = append(diff, fmt.Sprintf("%s: encoder=%x native=%x", k, e, g))
			}
		}
		if len(got) != len(v.expect) {
			diff = append(diff, fmt.Sprintf("observation count encoder=%d native=%d", len(v.expect), len(got)))
		}
		if nat[i].Panic != "" {
			diff = append(diff, "native panic: "+nat[i].Panic)
		}
		if len(diff) == 0 {
			res.Agreed++
		} else {
			sort.Strings(diff)
			if len(res.Mismatches) < 20 {
				res.Mismatches = append(res.Mismatches, v.label+" "+v.file+": "+strings.Join(diff, "; "))
			}
		}
	}
	return res
}
