package main

// Property definitions: which jobs, which obligations, bounds and notes.

import "fmt"

var stepStubs = []string{"harness bus Get/Set/In/Out (SMT array + trace, In returns an unconstrained byte)", "log.Printf (no effect, recorded as warning)", "math/bits.OnesCount8 (sum of bits)"}

func stepJobs(encs []Enc, harness string, extra ...int) []Job {
	jobs := make([]Job, 0, len(encs))
	for _, e := range encs {
		ps := append([]int{e.Tbl, e.Op}, extra...)
		jobs = append(jobs, Job{Dir: "z80", Harness: harness, Params: ps, Label: fmt.Sprintf("%s/%s", harness, e)})
	}
	return jobs
}

func inSet(name string, set ...string) bool {
	for _, s := range set {
		if s == name {
			return true
		}
	}
	return false
}

func init() {
	register(&PropCheck{
		ID:   "C01",
		Dirs: []string{"z80"},
		Jobs: func(tier string, seed int64) []Job { return stepJobs(allEncodings(), "VStep") },
		Only: func(job Job, a string) bool {
			return inSet(a, "A", "F", "BC", "DE", "HL", "alt", "IX", "IY", "SP", "PC", "I", "IFF1", "IFF2", "IM", "HALT", "intr", "mem", "portcount", "ports", "nopanic")
		},
		Bounds:  map[string]interface{}{"steps": 1, "opcode_bytes": "concrete, all 7 tables x 256 (1786 leaf encodings)", "symbolic": "all of States, HALT, 64 KiB memory, displacement/immediates, port inputs", "loop_unwinding": "none needed: Step is loop-free (unwinding assertion active)"},
		Assume:  []string{"Interrupt == nil", "Memory and IO are an ideal RAM / passive port space (harness bus)", "reference model vSpecStep is the Z80 definition (DESIGN.md §4)"},
		Stubs:   stepStubs,
		Rule:    "one job per leaf encoding; every feasible path of CPU.Step is explored; one obligation per compared state component per path",
		Exhaust: true,
	})
}
