package main

// Property definitions: which jobs, which obligations, bounds and notes.

import (
	"crypto/sha256"
	"fmt"
	"os"
	"path/filepath"
	"strings"
)

var stepStubs = []string{"harness bus Get/Set/In/Out (SMT array + trace, In returns an unconstrained byte)", "log.Printf (no effect, recorded as warning)", "math/bits.OnesCount8 (sum of bits)"}

func stepJobs(encs []Enc, harness string, extra ...int) []Job {
	jobs := make([]Job, 0, len(encs))
	for _, e := range encs {
		ps := append([]int{e.Tbl, e.Op}, extra...)
		jobs = append(jobs, Job{Dir: "z80", Harness: harness, Params: ps, Label: fmt.Sprintf("%s/%s", harness, e)})
	}
	return jobs
}

func inSet(name string, set ...string) bool {
	for _, s := range set {
		if s == name {
			return true
		}
	}
	return false
}

func init() {
	register(&PropCheck{
		ID:   "C01",
		Dirs: []string{"z80"},
		Jobs: func(tier string, seed int64) []Job {
			// every encoding from every pre-state - also with a refused maskable request pending
			return append(stepJobs(allEncodings(), "VStep"), stepJobs(allEncodings(), "VStepRefused")...)
		},
		Only: func(job Job, a string) bool {
			return inSet(a, "A", "F", "BC", "DE", "HL", "alt", "IX", "IY", "SP", "PC", "I", "IFF1", "IFF2", "IM", "HALT", "intr", "mem", "portcount", "ports", "nopanic", "unsupported", "pending")
		},
		Post: func(c *CheckCtx) {
			// translator validation of the encoder itself (not of the property)
			per, every := 1, 9
			if c.Tier == "thorough" {
				per, every = 11, 1
			}
			var encs []Enc
			for i, e := range allEncodings() {
				if (i+int(c.Seed))%every == 0 {
					encs = append(encs, e)
				}
			}
			tv := c.R.TranslatorValidation(encs, per, c.Seed)
			c.Extra["translator_validation"] = map[string]interface{}{"vectors": tv.Vectors, "agreed": tv.Agreed, "vectors_on_unfinished_paths": tv.NoPath,
				"what": "harness VTV (one Step + reference model, every output observed) run natively and through the encoder on the same random/corner vectors"}
			for _, m := range tv.Mismatches {
				c.Undecided = append(c.Undecided, fmt.Sprintf("obligation=translator-validation reason=%q", "encoder disagrees with native execution: "+m))
			}
			// oracle validation: the zex cases on the reference model, natively
			mode := "quick"
			if c.Tier == "thorough" {
				mode = "thorough"
			}
			out, err := c.L.GoTestNative("z80", "^TestVOracleZex$", []string{"VERIF_ORACLE=" + mode}, "60m")
			c.Extra["oracle_validation"] = map[string]interface{}{"mode": mode, "passed": err == nil, "what": "zexdoc/zexall cases executed on the reference model natively must give the canonical CRCs (quick: every 8th case, thorough: all 134)"}
			if err != nil {
				c.Undecided = append(c.Undecided, fmt.Sprintf("obligation=oracle-validation reason=%q", "reference model fails the exerciser natively: "+lastLines(out, 4)))
			}
		},
		Bounds:  map[string]interface{}{"steps": 1, "opcode_bytes": "concrete, all 7 tables x 256 (1786 leaf encodings)", "symbolic": "all of States, HALT, 64 KiB memory, displacement/immediates, port inputs", "loop_unwinding": "none needed: Step is loop-free (unwinding assertion active)"},
		Assume:  []string{"Interrupt == nil", "Memory and IO are an ideal RAM / passive port space (harness bus)", "reference model vSpecStep is the Z80 definition (DESIGN.md §4)"},
		Stubs:   stepStubs,
		Rule:    "one job per leaf encoding; every feasible path of CPU.Step is explored; one obligation per compared state component per path",
		Exhaust: true,
	})

	stepBounds := func(what string) map[string]interface{} {
		return map[string]interface{}{"steps": 1, "opcode_bytes": "concrete, " + what, "symbolic": "all of States, HALT, 64 KiB memory, displacement/immediates, port inputs", "loop_unwinding": "none needed: Step is loop-free (unwinding assertion active)"}
	}
	stepAssume := []string{"Interrupt == nil", "Memory and IO are an ideal RAM / passive port space (harness bus)", "reference model vSpecStep is the Z80 definition (DESIGN.md §4)"}
	register(&PropCheck{
		ID:   "C02",
		Dirs: []string{"z80"},
		Jobs: func(tier string, seed int64) []Job {
			jobs := stepJobs(encsOf("alu8", "rot", "bit"), "VStep")
			mk := func(class, y, f int) {
				jobs = append(jobs, Job{Dir: "z80", Harness: "VC02Agree", Params: []int{class, y, f}, Label: fmt.Sprintf("VC02Agree/c%d/y%d/f%d", class, y, f)})
			}
			for y := 0; y < 8; y++ {
				for f := 1; f <= 16; f++ {
					mk(0, y, f)
				}
			}
			for y := 0; y < 2; y++ {
				for _, f := range []int{1, 2, 3, 4, 5, 6, 7, 9, 10, 11, 12, 13, 14} {
					mk(1, y, f)
				}
			}
			for class := 2; class <= 5; class++ {
				for y := 0; y < 8; y++ {
					for _, f := range []int{1, 2, 3, 4, 5, 6, 7, 13, 14} {
						mk(class, y, f)
					}
				}
			}
			return jobs
		},
		Only: func(job Job, a string) bool {
			if job.Harness == "VC02Agree" {
				return true
			}
			return inSet(a, "A", "F", "BC", "DE", "HL", "IX", "IY", "mem")
		},
		Bounds: stepBounds("every encoding of the 8-bit ALU / rotate-shift / BIT-SET-RES families; complete A x operand x F cube per encoding"),
		Assume: stepAssume, Stubs: stepStubs, Exhaust: true,
		Rule: "one job per encoding of the families; obligations: A, F (under the model's mask) and the written operand (register or memory byte)",
	})
	register(&PropCheck{
		ID:   "C03",
		Dirs: []string{"z80"},
		Jobs: func(tier string, seed int64) []Job {
			jobs := stepJobs(encsOf("arith16", "incdec16"), "VStep")
			for p := 0; p < 4; p++ {
				jobs = append(jobs, Job{Dir: "z80", Harness: "VC03AdcAdd", Params: []int{p}, Label: fmt.Sprintf("VC03AdcAdd/p%d", p)})
				jobs = append(jobs, Job{Dir: "z80", Harness: "VC03SbcAdcInverse", Params: []int{p}, Label: fmt.Sprintf("VC03SbcAdcInverse/p%d", p)})
				jobs = append(jobs, Job{Dir: "z80", Harness: "VC03IncDec", Params: []int{p, 0}, Label: fmt.Sprintf("VC03IncDec/p%d", p)})
			}
			jobs = append(jobs, Job{Dir: "z80", Harness: "VC03IncDec", Params: []int{2, 1}, Label: "VC03IncDec/ix"})
			jobs = append(jobs, Job{Dir: "z80", Harness: "VC03IncDec", Params: []int{2, 2}, Label: "VC03IncDec/iy"})
			return jobs
		},
		Only: func(job Job, a string) bool {
			if job.Harness != "VStep" {
				return true
			}
			return inSet(a, "F", "BC", "DE", "HL", "IX", "IY", "SP")
		},
		Bounds: stepBounds("ADD HL/IX/IY,ss; ADC/SBC HL,ss; INC/DEC ss/IX/IY; complete 2^32 operand pairs x F per encoding"),
		Assume: stepAssume, Stubs: stepStubs, Exhaust: true,
		Rule: "one job per encoding; obligations: the register pairs and F",
	})
	register(&PropCheck{
		ID:   "C04",
		Dirs: []string{"z80"},
		Jobs: func(tier string, seed int64) []Job {
			jobs := stepJobs(encsOf("jump", "call", "ret", "stack"), "VStep")
			jobs = append(jobs, Job{Dir: "z80", Harness: "VC04CallRet", Params: []int{0, 0}, Label: "VC04CallRet/call"})
			for y := 0; y < 8; y++ {
				jobs = append(jobs, Job{Dir: "z80", Harness: "VC04CallRet", Params: []int{1, y}, Label: fmt.Sprintf("VC04CallRet/callcc%d", y)})
				jobs = append(jobs, Job{Dir: "z80", Harness: "VC04CallRet", Params: []int{2, y}, Label: fmt.Sprintf("VC04CallRet/rst%02x", y*8)})
			}
			for q := 0; q < 6; q++ {
				jobs = append(jobs, Job{Dir: "z80", Harness: "VC04PushPop", Params: []int{q}, Label: fmt.Sprintf("VC04PushPop/q%d", q)})
			}
			// a call/push/jump followed, on the same CPU but on entirely fresh memory, by a
			// return/pop: the return address is whatever memory holds now
			for _, x := range encsOf("call", "stack", "jump") {
				for _, y := range encsOf("ret", "stack") {
					jobs = append(jobs, Job{Dir: "z80", Harness: "VStep2", Params: []int{x.Tbl, x.Op, y.Tbl, y.Op}, Label: fmt.Sprintf("VStep2/%s/%s", x, y)})
				}
			}
			return jobs
		},
		Only: func(job Job, a string) bool {
			if job.Harness != "VStep" && job.Harness != "VStep2" {
				return true
			}
			return inSet(a, "A", "F", "BC", "DE", "HL", "IX", "IY", "SP", "PC", "mem", "tracelen", "trace")
		},
		Bounds: stepBounds("all jump/call/return/RST/PUSH/POP/EX (SP) encodings; all 256 F / B values"),
		Assume: stepAssume, Stubs: stepStubs, Exhaust: true,
		Rule: "one job per encoding; obligations: PC, SP, registers, F, memory and the access trace (stack bytes)",
	})
	register(&PropCheck{
		ID:   "C05",
		Dirs: []string{"z80"},
		Jobs: func(tier string, seed int64) []Job {
			jobs := stepJobs(allEncodings(), "VStep")
			// no I/O device attached: the memory accesses of I/O instructions stay the same
			nilio := encsOf("io")
			for _, op := range []int{0xa2, 0xa3, 0xaa, 0xab, 0xb2, 0xb3, 0xba, 0xbb} {
				nilio = append(nilio, Enc{2, op})
			}
			if tier == "thorough" {
				nilio = allEncodings()
			}
			jobs = append(jobs, stepJobs(nilio, "VC05NilIO")...)
			// two acceptances in a row, the second on a freshly attached memory: every access goes there
			for k1 := 0; k1 <= 2; k1++ {
				for k2 := 0; k2 <= 2; k2++ {
					jobs = append(jobs, Job{Dir: "z80", Harness: "VC06AcceptTwice", Params: []int{k1, k2}, Label: fmt.Sprintf("VC06AcceptTwice/k%d/k%d", k1, k2)})
				}
			}
			// with a refused maskable request pending the Step makes the same accesses
			jobs = append(jobs, stepJobs(allEncodings(), "VStepRefused")...)
			// the same instruction again on the same CPU object but on entirely fresh memory:
			// every byte is read again (nothing about memory is remembered between Steps)
			for _, x := range allEncodings() {
				jobs = append(jobs, Job{Dir: "z80", Harness: "VStep2", Params: []int{x.Tbl, x.Op, x.Tbl, x.Op}, Label: fmt.Sprintf("VStep2/%s/%s", x, x)})
			}
			return jobs
		},
		Only: func(job Job, a string) bool {
			if job.Harness == "VC05NilIO" {
				return true
			}
			if job.Harness == "VC06AcceptTwice" {
				return inSet(a, "old-memory-untouched", "two-stack-writes")
			}
			return inSet(a, "tracelen", "trace", "rmw-order", "portcount", "ports", "unsupported")
		},
		Bounds: stepBounds("all 7 tables x 256 (1786 leaf encodings); trace length <= 8 (longest observed is reported)"),
		Assume: stepAssume, Stubs: stepStubs, Exhaust: true,
		Rule: "one job per leaf encoding; obligations: trace length, multiset equality of (kind,address,value) tuples with the model's trace, ordered port log, no read after write",
	})
	register(&PropCheck{
		ID:   "C14",
		Dirs: []string{"z80"},
		Jobs: func(tier string, seed int64) []Job {
			jobs := stepJobs(allEncodings(), "VStep")
			// a refused maskable request pending does not change the count
			jobs = append(jobs, stepJobs(allEncodings(), "VStepRefused")...)
			for k := 1; k <= 3; k++ {
				jobs = append(jobs, Job{Dir: "z80", Harness: "VC14Halted", Params: []int{k}, Label: fmt.Sprintf("VC14Halted/k%d", k)})
			}
			for _, op := range []int{0xb0, 0xb8, 0xb1, 0xb9, 0xb2, 0xba, 0xb3, 0xbb} {
				for n := 2; n <= 3; n++ {
					jobs = append(jobs, Job{Dir: "z80", Harness: "VC14BlockRepeat", Params: []int{op, n}, Label: fmt.Sprintf("VC14BlockRepeat/ed%02x/n%d", op, n), MaxForks: 256})
				}
			}
			return jobs
		},
		Only: func(job Job, a string) bool {
			if job.Harness != "VStep" && job.Harness != "VStepRefused" {
				return true
			}
			if inSet(a, "R", "I", "unsupported") {
				return true
			}
			e := Enc{job.Params[0], job.Params[1]}
			return classify(e) == "ir" && inSet(a, "A", "F")
		},
		Bounds: stepBounds("all 7 tables x 256 (1786 leaf encodings), unsupported ones included; all R and I"),
		Assume: stepAssume, Stubs: stepStubs, Exhaust: true,
		Rule: "one job per leaf encoding; obligations: R (2-or-3 accept set for DDCB/FDCB) and I; A and F for LD A,I / LD A,R / LD I,A / LD R,A",
	})
}

func ddfdEncs() []Enc {
	var out []Enc
	for op := 0; op < 256; op++ {
		if op != 0xcb {
			out = append(out, Enc{3, op})
		}
	}
	for op := 0; op < 256; op++ {
		out = append(out, Enc{5, op})
	}
	return out
}

func init() {
	register(&PropCheck{
		ID:   "C11",
		Dirs: []string{"z80"},
		Jobs: func(tier string, seed int64) []Job {
			return append(stepJobs(ddfdEncs(), "VC11"), stepJobs(ddfdEncs(), "VC11Indep")...)
		},
		Bounds:  map[string]interface{}{"steps": 1, "opcode_bytes": "concrete: all 255 second bytes after DD/FD and all 256 fourth bytes after DDCB/FDCB", "symbolic": "all of States (IX, IY independent), HALT, memory, displacement, port inputs"},
		Assume:  []string{"no data access of the DD run hits the prefix byte at PC (the one byte where the two programs differ by construction)", "ideal RAM / passive ports", "Interrupt == nil"},
		Stubs:   stepStubs,
		Rule:    "per byte: one relational job DD(S) vs FD(swap S) (state, HALT, trace element-wise except the first fetch's value, memory) and one independence job (two DD runs differing only in IY)",
		Exhaust: true,
	})
	register(&PropCheck{
		ID:   "C10",
		Dirs: []string{"z80"},
		Jobs: func(tier string, seed int64) []Job {
			jobs := stepJobs(allEncodings(), "VC10")
			for kind := 0; kind <= 1; kind++ {
				for _, im := range []int{0, 1, 2, 7} {
					for n := 0; n <= 3; n++ {
						if kind == 0 && im != 1 {
							continue
						}
						d0s := []int{0xff}
						if kind == 1 && im == 0 && n > 0 {
							d0s = []int{0xff, 0xcd, 0x7e, 0x3a, 0x36}
						}
						for _, d0 := range d0s {
							jobs = append(jobs, Job{Dir: "z80", Harness: "VC10Req", Params: []int{kind, im, n, d0}, Label: fmt.Sprintf("VC10Req/k%d/im%d/n%d/d%02x", kind, im, n, d0)})
						}
					}
				}
			}
			// no device attached: I/O encodings, with an unrelated device-less CPU writing a port in between
			nilio := encsOf("io")
			for _, op := range []int{0xa2, 0xa3, 0xaa, 0xab, 0xb2, 0xb3, 0xba, 0xbb} {
				nilio = append(nilio, Enc{2, op})
			}
			jobs = append(jobs, stepJobs(nilio, "VC10NilIO")...)
			// isolation sandwich with constructor-built requests (5 x 5 forms, any mode)
			for f0 := 0; f0 <= 4; f0++ {
				for f := 0; f <= 4; f++ {
					jobs = append(jobs, Job{Dir: "z80", Harness: "VC10Sandwich", Params: []int{f0, f}, Label: fmt.Sprintf("VC10Sandwich/other%d/req%d", f0, f), MaxForks: 1024, MaxPaths: 4000})
				}
			}
			for mode := 0; mode <= 2; mode++ {
				encs := allEncodings()
				if tier != "thorough" {
					encs = append(reprEncs(), encsOf("ctl", "ir")...)
				}
				jobs = append(jobs, stepJobs(encs, "VC10Rebuild", mode)...)
			}
			return jobs
		},
		Post: func(c *CheckCtx) {
			// isolation: no path of Step writes a package-level variable
			w := map[string]bool{}
			rd := map[string]bool{}
			for _, jr := range c.Results {
				for g := range jr.GlobalW {
					w[g] = true
				}
				for g := range jr.GlobalR {
					rd[g] = true
				}
			}
			ini := map[string]bool{}
			for _, jr := range c.Results {
				for g := range jr.GlobalInit {
					ini[g] = true
				}
			}
			aw, ar := map[string]bool{}, map[string]bool{}
			for _, jr := range c.Results {
				for g := range jr.GlobalAtomW {
					aw[g] = true
				}
				for g := range jr.GlobalAtomR {
					ar[g] = true
				}
			}
			stat := map[string]bool{}
			for g := range aw {
				if ar[g] {
					w[g] = true // updated and read back by Step: shared state
				} else {
					stat[g] = true
				}
			}
			c.Extra["package_vars_updated_atomically_never_read_by_Step"] = sortedKeys(stat)
			c.Extra["package_vars_initialised_once_with_constants"] = sortedKeys(ini)
			c.Extra["package_vars_written_by_Step"] = sortedKeys(w)
			c.Extra["package_vars_read_by_Step"] = sortedKeys(rd)
			for g := range w {
				detail := "a path of CPU.Step writes package-level variable " + g + ": two CPUs on different goroutines would share (and race on) it"
				// try to confirm natively: the same encoding stepped by four goroutines under -race
				for _, jr := range c.Results {
					if jr.GlobalW[g] && jr.Job.Harness == "VC10" {
						rf := &ReplayFile{Dir: "z80", Harness: "VC10Concurrent", Params: jr.Job.Params, Vals: map[string]uint64{}, Arrays: map[string]ReplayAr{}, Failed: []string{"norace"}, Detail: detail}
						path, err := writeReplay(rf, c.P.ID, "global-write-native/"+g)
						if err != nil {
							break
						}
						_, out, _ := c.L.RunNative("z80", []string{path}, true)
						if strings.Contains(out, "DATA RACE") {
							detail += " — confirmed natively: go test -race reports a data race when four CPUs step " + Enc{jr.Job.Params[0], jr.Job.Params[1]}.String() + " concurrently (" + path + ")"
						} else {
							detail += " — native -race run of " + Enc{jr.Job.Params[0], jr.Job.Params[1]}.String() + " on four goroutines did not report a race (footprint finding stands on the SSA paths)"
						}
						break
					}
				}
				c.structural("global-write/"+g, detail)
			}
		},
		Bounds:  map[string]interface{}{"steps": 1, "opcode_bytes": "concrete, all 1786 leaf encodings", "hidden": "every field of CPU other than States/Memory/IO/Interrupt/handlers is havocked independently in the two copies (taken from the type, so fields added later are included)"},
		Assume:  []string{"ideal RAM / passive ports shared as equal answers", "goroutine interleavings are not executed: race-freedom is argued from the footprint (no package-level variable written, disjoint object graphs)"},
		Stubs:   stepStubs,
		Rule:    "per encoding one 2-copy job: equal States + equal bus answers, all other CPU fields independent, must give equal States, trace and memory; plus footprint: package-level variables written on any explored path",
		Exhaust: true,
	})
}

func reprEncs() []Enc {
	return []Enc{{0, 0x00}, {0, 0x3c}, {0, 0x76}, {0, 0xfb}, {0, 0xf3}, {0, 0xcd}, {0, 0xc9}, {0, 0x34}, {0, 0xd3}, {0, 0xdb},
		{1, 0x06}, {2, 0x45}, {2, 0x4d}, {2, 0xb0}, {3, 0x86}, {6, 0xc6}}
}

func init() {
	register(&PropCheck{
		ID:   "C06",
		Dirs: []string{"z80"},
		Jobs: func(tier string, seed int64) []Job {
			var jobs []Job
			mk := func(h, label string, ps ...int) {
				jobs = append(jobs, Job{Dir: "z80", Harness: h, Params: ps, Label: h + "/" + label})
			}
			for n := 0; n <= 3; n++ {
				mk("VC06NMI", fmt.Sprintf("n%d", n), n)
				mk("VC06INT", fmt.Sprintf("im1/n%d", n), 1, n)
				if n > 0 {
					mk("VC06INT", fmt.Sprintf("im2/n%d", n), 2, n)
				}
			}
			for p := 0; p < 8; p++ {
				mk("VC06IM0RST", fmt.Sprintf("rst%02x", p*8), p)
			}
			for r := 0; r < 3; r++ {
				mk("VC06IM0CALL", fmt.Sprintf("call/region%d", r), r)
			}
			refused := append(reprEncs(), encsOf("ctl", "ir")...)
			if tier == "thorough" {
				refused = allEncodings()
			}
			for _, e := range refused {
				for _, n := range []int{0, 1} {
					jobs = append(jobs, Job{Dir: "z80", Harness: "VC06Refused", Params: []int{e.Tbl, e.Op, n}, Label: fmt.Sprintf("VC06Refused/%s/n%d", e, n)})
				}
			}
			jobs = append(jobs, stepJobs(allEncodings(), "VC06Handler")...)
			// one-step refinement of the flip-flops for every instruction (EI, DI, RETN, RETI, all others)
			jobs = append(jobs, stepJobs(allEncodings(), "VStep")...)
			// histories of depth 2: any instruction, then a request at the boundary after it
			for kind := 0; kind <= 1; kind++ {
				for pre := 0; pre <= 1; pre++ {
					encs := allEncodings()
					if pre == 1 && tier != "thorough" {
						encs = append(reprEncs(), encsOf("ctl", "ir")...)
					}
					for _, j := range stepJobs(encs, "VC06After", kind, pre) {
						// IM 0 / IM 2 followed by a mode-1 request: the harness's assumption
						// "mode 1 at the boundary" cannot hold, the job would be vacuous
						if kind == 1 && j.Params[0] == 2 && (j.Params[1] == 0x46 || j.Params[1] == 0x5e) {
							continue
						}
						j.Label += fmt.Sprintf("/pre%d", pre)
						jobs = append(jobs, j)
					}
				}
			}
			for k1 := 0; k1 <= 2; k1++ {
				for k2 := 0; k2 <= 2; k2++ {
					mk("VC06AcceptTwice", fmt.Sprintf("k%d/k%d", k1, k2), k1, k2)
				}
			}
			mk("VC06Ctor", "ctor")
			mk("VC06ScenarioEI", "s")
			mk("VC06ScenarioNested", "s")
			return jobs
		},
		Only: func(job Job, a string) bool {
			if job.Harness == "VStep" {
				return inSet(a, "IFF1", "IFF2", "IM", "intr")
			}
			return true
		},
		Bounds: map[string]interface{}{"steps": "1 (scenarios: 3)", "request": "Type in {NMI, maskable}, IM in {0,1,2} concrete per job, len(Data) 0..3 case-split with symbolic bytes; mode 0 with RST p (8) and CALL nn", "refused": "quick: 16 representative encodings, thorough: all 1786", "symbolic": "all of States, HALT, memory, vector byte, I"},
		Assume: []string{"ideal RAM / passive ports", "mode 0 supplies RST p or CALL nn only", "requests with empty Data in modes 0/2 and IM outside 0..2 are outside the claim (C12 covers totality)", "which return address mode 0 pushes is C07's subject"},
		Stubs:  stepStubs,
		Rule:   "one job per (request kind, mode, len(Data)); refused requests compared with the reference model of the pinned instruction; handler counts and flip-flop effects for all 1786 encodings; two multi-Step scenarios",
	})
}

func init() {
	register(&PropCheck{
		ID:   "C07",
		Dirs: []string{"z80"},
		Jobs: func(tier string, seed int64) []Job {
			var jobs []Job
			names := []string{"nmi", "im1", "im2"}
			for k := 0; k < 3; k++ {
				jobs = append(jobs, Job{Dir: "z80", Harness: "VC07", Params: []int{k, 0}, Label: "VC07/" + names[k]})
			}
			for p := 0; p < 8; p++ {
				jobs = append(jobs, Job{Dir: "z80", Harness: "VC07", Params: []int{3, p}, Label: fmt.Sprintf("VC07/im0-rst%02x", p*8)})
			}
			jobs = append(jobs, Job{Dir: "z80", Harness: "VC07", Params: []int{4, 0}, Label: "VC07/im0-call"})
			// a request raised while disabled changes nothing until accepted: the block
			// instructions and HALT with a refused request pending behave as without it
			for _, e := range append(encsOf("block"), Enc{0, 0x76}, Enc{0, 0xfb}, Enc{0, 0xf3}) {
				// without and with data on the bus (a mode-2 vector, a mode-0 instruction)
				for _, n := range []int{0, 1, 3} {
					jobs = append(jobs, Job{Dir: "z80", Harness: "VC06Refused", Params: []int{e.Tbl, e.Op, n}, Label: fmt.Sprintf("VC06Refused/%s/n%d", e, n)})
				}
			}
			// relational form: (accept; handler; return; X) vs (X) for the instruction X at the boundary
			encs := append(reprEncs(), encsOf("ctl", "ir")...)
			if tier == "thorough" {
				encs = allEncodings()
			}
			// LD A,R observes the refresh counter, which the handler's fetches advance
			// ("States minus R"): not a transparent observer, excluded
			var encs2 []Enc
			for _, e := range encs {
				if !(e.Tbl == 2 && e.Op == 0x5f) {
					encs2 = append(encs2, e)
				}
			}
			for k := 0; k < 3; k++ {
				jobs = append(jobs, stepJobs(encs2, "VC07Rel", k)...)
			}
			for i := range jobs {
				if jobs[i].Harness == "VC07Rel" {
					jobs[i].Params = []int{jobs[i].Params[2], jobs[i].Params[0], jobs[i].Params[1]}
					jobs[i].Label = fmt.Sprintf("VC07Rel/%s/%s", names[jobs[i].Params[0]], Enc{jobs[i].Params[1], jobs[i].Params[2]})
				}
			}
			return jobs
		},
		Bounds: map[string]interface{}{"steps": 3, "handler": "the minimal transparent one: EI; RETI (NMI: RETN), assumed present at the handler address after the acceptance push", "kinds": "NMI, IM1, IM2 (vector byte and I symbolic), IM0 with RST p (8) and CALL nn", "symbolic": "the boundary state: all of States (any PC, so also on a block instruction or a HALT), HALT, memory"},
		Assume: []string{"IFF1 = IFF2 at the boundary (= 1 for maskable kinds)", "handler bytes as stated", "comparison excludes the low seven bits of R and the two bytes below SP", "from lemma to whole programs: induction + C10 + C09, a paper step (DESIGN.md C07)"},
		Stubs:  stepStubs,
		Rule:   "one job per interrupt kind: 3-Step lemma accept; EI; RETI from an arbitrary state is the identity",
	})
}

func init() {
	register(&PropCheck{
		ID:   "C09",
		Dirs: []string{"z80"},
		Jobs: func(tier string, seed int64) []Job {
			jobs := stepJobs(encsOf("block"), "VStep")
			maxN := 4
			if tier == "thorough" {
				maxN = 8
			}
			for _, op := range []int{0xa0, 0xa8, 0xb0, 0xb8, 0xa1, 0xb1} {
				jobs = append(jobs, Job{Dir: "z80", Harness: "VC09SwapDumb", Params: []int{op}, Label: fmt.Sprintf("VC09SwapDumb/ed%02x", op), MaxForks: 256})
			}
			for _, op := range []int{0xb0, 0xb8, 0xb1, 0xb9, 0xb2, 0xba, 0xb3, 0xbb} {
				for n := 1; n <= maxN; n++ {
					jobs = append(jobs, Job{Dir: "z80", Harness: "VC09Run", Params: []int{op, n}, Label: fmt.Sprintf("VC09Run/ed%02x/n%d", op, n), MaxForks: 256})
				}
			}
			return jobs
		},
		Only: func(job Job, a string) bool {
			if job.Harness == "VStep" {
				return !inSet(a, "rmw-order")
			}
			return true
		},
		Bounds: map[string]interface{}{"lemma": "one Step of each of the 16 block encodings from an arbitrary state (all BC/B, HL, DE, A, memory, port data)", "unrolled": "n = BC (or B) in 1..4 (thorough 1..8) elements run to completion against a functional spec", "longer_runs": "65536-element runs only via the lemma + induction on the counter (paper step)"},
		Assume: []string{"ideal RAM / passive ports", "in the unrolled runs the two opcode bytes are still ED xx whenever they are re-fetched", "block I/O flags other than Z and N are not compared (undocumented)"},
		Stubs:  stepStubs,
		Rule:   "16 one-element lemma jobs + 8 repeating opcodes x n unrolled runs; obligations: state, element count, access sequence, memory",
	})
}

func init() {
	register(&PropCheck{
		ID:   "C12",
		Dirs: []string{"z80"},
		Jobs: func(tier string, seed int64) []Job {
			jobs := stepJobs(allEncodings(), "VStep")
			jobs = append(jobs, stepJobs(allEncodings(), "VC12NilIO")...)
			mk := func(h, label string, ps ...int) {
				jobs = append(jobs, Job{Dir: "z80", Harness: h, Params: ps, Label: h + "/" + label, MaxForks: 2048, MaxPaths: 20000})
			}
			type dd struct{ d0, d1 int }
			pins := []dd{{0x00, -1}, {0xc7, -1}, {0xff, -1}, {0xcd, -1}, {0x21, -1}, {0x36, -1}, {0x76, -1}, {0xd3, -1}, {0xdb, -1}, {0xe3, -1}, {0x10, -1}, {0xc9, -1},
				{0xed, 0x46}, {0xed, 0xb0}, {0xed, 0x45}, {0xed, 0x00}, {0xdd, 0x21}, {0xdd, 0x36}, {0xdd, 0xcb}, {0xfd, 0xcb}, {0xdd, 0xdd}, {0xcb, 0x06}, {0xfd, 0xe9}}
			mk("VC12Req", "n0", 0, -1, -1)
			mk("VC12ReqTop", "n0", 0, -1)
			for n := 1; n <= 4; n++ {
				for _, p := range pins {
					mk("VC12Req", fmt.Sprintf("n%d/%02x.%d", n, p.d0, p.d1), n, p.d0, p.d1)
				}
				for _, d0 := range []int{0xc7, 0xcd, 0xdd, 0xed, 0x36} {
					mk("VC12ReqTop", fmt.Sprintf("n%d/%02x", n, d0), n, d0)
				}
				if tier == "thorough" {
					mk("VC12Req", fmt.Sprintf("n%d/any", n), n, -1, -1)
				}
			}
			// long data: supplied instructions whose data access can fall anywhere in it
			for _, n := range []int{5, 6, 8, 12} {
				for _, d0 := range []int{0x3a, 0x7e, 0xc9, 0xe1, 0x2a, 0x34, 0xcd, 0xed} {
					d1 := -1
					if d0 == 0xed {
						d1 = 0x4b // LD BC,(nn)
					}
					mk("VC12Req", fmt.Sprintf("n%d/%02x.%d", n, d0, d1), n, d0, d1)
				}
			}
			encs := reprEncs()
			if tier == "thorough" {
				encs = allEncodings()
			}
			jobs = append(jobs, stepJobs(encs, "VC12Dumb")...)
			for k := 0; k <= 3; k++ {
				jobs = append(jobs, stepJobs(encs, "VC12DumbCut", k)...)
			}
			jobs = append(jobs, stepJobs(encs, "VC12Map")...)
			// histories of unsupported encodings on one CPU (12 distinct, then two of them again)
			for _, tbl := range []int{2, 3, 4, 5} {
				var inv []int
				for _, e := range encsOf("invalid") {
					if e.Tbl == tbl && !(tbl != 2 && (e.Op == 0xdd || e.Op == 0xfd || e.Op == 0xed || e.Op == 0xcb)) {
						inv = append(inv, e.Op)
					}
				}
				for start := 0; start+12 <= len(inv); start += 12 {
					ps := append([]int{tbl}, inv[start:start+12]...)
					jobs = append(jobs, Job{Dir: "z80", Harness: "VC12Hist", Params: ps, Label: fmt.Sprintf("VC12Hist/t%d/from%02x", tbl, inv[start]), MaxForks: 64})
					if tier != "thorough" {
						break
					}
				}
			}
			// Run returns once its program halts: scripted programs incl. HALT, any IM, a
			// maskable request pending at entry (accepted, refused or never consumable)
			jobs = append(jobs, Job{Dir: "z80", Harness: "VC08Script", Params: []int{0, 3, 2}, Label: "VC08Script/run-returns-on-halt/any-im", MaxForks: 4096, MaxPaths: 100000})
			jobs = append(jobs, Job{Dir: "z80", Harness: "VC08Script", Params: []int{0, 3, 1}, Label: "VC08Script/run-returns-on-halt/nmi", MaxForks: 4096, MaxPaths: 100000})
			// ... also when the context is cancelled in the very Step that halts or hits a
			// breakpoint (a Run that deadlocks there is confirmed natively under the watchdog)
			for _, ps := range [][]int{{-1, 2, 0}, {0, 2, 0}, {1, 2, 1}} {
				jobs = append(jobs, Job{Dir: "z80", Harness: "VC13Script", Params: ps, Label: fmt.Sprintf("VC13Script/run-returns/at%d/k%d/bp%d", ps[0], ps[1], ps[2]), MaxForks: 4096, MaxPaths: 100000, ProbeHang: true})
			}
			// termination probe for the single-Step jobs: if the exploration is cut short inside a loop,
			// look for an input on which the real Step does not come back
			for k := range jobs {
				if jobs[k].Harness == "VStep" {
					jobs[k].ProbeHang = true
				}
			}
			return jobs
		},
		Only: func(job Job, a string) bool {
			if job.Harness == "VStep" {
				if a == "nopanic" {
					return true
				}
				// unsupported encodings are consumed: PC past the fetched bytes, R advanced, nothing else
				return classify(Enc{job.Params[0], job.Params[1]}) == "invalid" && !inSet(a, "rmw-order")
			}
			if job.Harness == "VC13Script" {
				return a == "nopanic"
			}
			if job.Harness == "VC08Script" {
				// C12's clause is only that Run returns (normally) once its program halts;
				// what it returns and in which state is C08's subject
				return a == "nopanic" || a == "returns-once-halted"
			}
			return true
		},
		Post: func(c *CheckCtx) {
			loops := map[string]bool{}
			panics := 0
			for _, jr := range c.Results {
				panics += jr.PanicPaths
				for f := range jr.LoopFuncs {
					if isHarnessFunc(f) {
						continue
					}
					loops[f] = true
				}
			}
			// termination: every explored path of Step ran to its end inside the
			// unwinding and call-depth bounds (exceeding one is reported as undecided by
			// the engine); loops and recursion as such are not violations — recorded only
			c.Extra["functions_with_back_edge_taken"] = sortedKeys(loops)
			c.Extra["step_call_graph_acyclic"] = stepCallCycle(c.L) == ""
		},
		Bounds: map[string]interface{}{"steps": 1, "encodings": "all 1786 with the ideal bus and with IO == nil; requests: Type and IM arbitrary ints, IFF1 arbitrary, len(Data) 0..4 and 5, 6, 8, 12 (long data, instructions with data accesses), PC anywhere and PC = 0xFFFF; quick pins the first one or two supplied bytes to 23 opcode/prefix choices, thorough leaves them symbolic", "short_memories": "DumbMemory and DumbIO of symbolic length 0..65536 (a DumbIO longer than 256 is legal), MapMemory with <= 3 arbitrary entries: quick 16 encodings, thorough all"},
		Assume: []string{"Memory non-nil (documented precondition)", "MapMemory initialised (non-nil map)", "liveness of arbitrary programs under Run is outside: Run returns in the iteration in which Step sets HALT (C08)", "log.Printf does not panic"},
		Stubs:  stepStubs,
		Rule:   "every implicit/explicit panic site reached on an explored path is an obligation (index, slice bounds, nil dereference, nil map write, type assertion, division, panic); plus 'consumed' obligations for the 856 unsupported encodings; termination = every path ends inside the unwinding/call-depth bounds (loops and recursion are recorded, not forbidden)",
	})
}

func init() {
	register(&PropCheck{
		ID:   "C16",
		Dirs: []string{"z80"},
		Jobs: func(tier string, seed int64) []Job {
			var jobs []Job
			for _, h := range []string{"VC16Flags", "VC16Consts", "VC16Reg"} {
				jobs = append(jobs, Job{Dir: "z80", Harness: h, Label: h})
			}
			return jobs
		},
		Bounds:  map[string]interface{}{"domain": "complete: all 256 masks x all F x all of GPR; all 65536 register values; the eight exported constants"},
		Assume:  []string{},
		Rule:    "three harnesses over GetFlag/SetFlag/ResetFlag, the flag constants and Register.U16/SetU16 with every input symbolic",
		Exhaust: true,
	})
}

var runStubs = []string{"context.WithCancel (opaque child context + recorded cancel func)", "context.Background (opaque)", "sync/atomic.LoadInt32/StoreInt32 (accesses tagged atomic)", "go statement: the watcher goroutine is a coroutine that stays blocked (cancellation never happens in C08) until Run's deferred cancel releases it", "errors.New (opaque distinct object)", "log.Printf"}

func init() {
	register(&PropCheck{
		ID:   "C08",
		Dirs: []string{"z80"},
		Jobs: func(tier string, seed int64) []Job {
			var jobs []Job
			k := 3
			if tier == "thorough" {
				k = 4
			}
			for bp := 0; bp <= 1; bp++ {
				k0 := k
				if bp == 1 && k > 3 {
					k0 = 3 // arbitrary breakpoint sets multiply the paths
				}
				jobs = append(jobs, Job{Dir: "z80", Harness: "VC08Script", Params: []int{bp, k0, 0}, Label: fmt.Sprintf("VC08Script/bp%d/k%d", bp, k0), MaxForks: 4096, MaxPaths: 100000})
				jobs = append(jobs, Job{Dir: "z80", Harness: "VC08Script", Params: []int{bp, 3, 1}, Label: fmt.Sprintf("VC08Script/bp%d/k3/nmi", bp), MaxForks: 4096, MaxPaths: 100000})
				jobs = append(jobs, Job{Dir: "z80", Harness: "VC08Script", Params: []int{bp, 3, 2}, Label: fmt.Sprintf("VC08Script/bp%d/k3/int-any-im", bp), MaxForks: 4096, MaxPaths: 100000})
			}
			for p := 0; p <= 14; p++ {
				jobs = append(jobs, Job{Dir: "z80", Harness: "VC08Prog", Params: []int{p}, Label: fmt.Sprintf("VC08Prog/%d", p), MaxForks: 256})
			}
			// Run; change the breakpoint set (new map / same map edited in place); Run again
			for mode := 0; mode <= 1; mode++ {
				kk := 3
				if tier == "thorough" {
					kk = 5
				}
				jobs = append(jobs, Job{Dir: "z80", Harness: "VC08Twice", Params: []int{mode, kk}, Label: fmt.Sprintf("VC08Twice/mode%d/k%d", mode, kk), MaxForks: 4096, MaxPaths: 100000})
			}
			// Run started on any encoding X, then HALTs: first iteration = Step(X) + stop rule
			for intr := 0; intr <= 2; intr++ {
				encs := allEncodings()
				if intr > 0 && tier != "thorough" {
					encs = reprEncs()
				}
				for _, j := range stepJobs(encs, "VC08Any", intr) {
					j.Label += fmt.Sprintf("/intr%d", intr)
					j.MaxForks, j.MaxPaths = 256, 4000
					jobs = append(jobs, j)
				}
			}
			return jobs
		},
		Bounds: map[string]interface{}{"any_first_instruction": "Run started on each of the 1786 encodings X followed by HALTs (index-scripted memory, arbitrary operands/data, port input arbitrary), arbitrary start state, stale HALT flag, BreakPoints nil or arbitrary set of <= 2, no request / NMI / maskable request pending (quick: requests with 29 representative encodings)", "scripted": "all programs of <= 3 (thorough 4) instructions drawn from {HALT, NOP, JP nn, LD BC,nn, INC A} with arbitrary operands, arbitrary start state and stale HALT flag, BreakPoints nil or an arbitrary set of <= 2 addresses; Run with the real Step vs a Step-driven twin with the stop rule written out", "scripted_interrupts": "same with the device raising an NMI during any instruction (shapes HALT, NOP, INC A)", "skeletons": "15 concrete program skeletons (<= 8 Steps) on an address-consistent bus with symbolic registers/data: HALT first, NOPs+HALT, breakpoint on start PC / on the HALT / inside a 3-byte instruction / across PC wrap / on a jumped-to HALT, DJNZ loop, second Run on a halted CPU, OUT whose device raises NMI / INT (enabled, disabled), the same with a breakpoint on the handler entry, Run again on a halted CPU with an NMI pending"},
		Assume: []string{"cancellation never happens (C13 covers it)", "scripted memory is not address-consistent (it models arbitrary instruction streams); address-consistent behaviour is covered by the skeletons", "programs longer than the bound: by induction over loop iterations (Run keeps no state between iterations besides the CPU — checked by the twin equality at every length up to the bound)"},
		Stubs:  runStubs,
		Rule:   "2 scripted jobs (every path = one program shape x stop behaviour) + 12 skeleton jobs; obligations: return value, number of Steps, final States/HALT, write log or bus trace, memory",
	})
}

func init() {
	register(&PropCheck{
		ID:   "C13",
		Dirs: []string{"z80"},
		Jobs: func(tier string, seed int64) []Job {
			var jobs []Job
			k := 3
			if tier == "thorough" {
				k = 4
			}
			for at := -1; at < k; at++ {
				for bp := 0; bp <= 2; bp++ {
					kk := k
					if bp >= 1 {
						// arbitrary breakpoint sets multiply the paths: one instruction fewer
						kk = k - 1
						if at >= kk {
							continue
						}
					}
					jobs = append(jobs, Job{Dir: "z80", Harness: "VC13Script", Params: []int{at, kk, bp}, Label: fmt.Sprintf("VC13Script/at%d/k%d/bp%d", at, kk, bp), MaxForks: 4096, MaxPaths: 100000, ProbeHang: true})
				}
			}
			// Run; the caller cancels the first context; Run again on the same CPU (eager and lazy schedule)
			for lazy := 0; lazy <= 1; lazy++ {
				for at := 0; at < 2; at++ {
					jobs = append(jobs, Job{Dir: "z80", Harness: "VC13Twice", Params: []int{lazy, at, 3}, Label: fmt.Sprintf("VC13Twice/lazy%d/at%d/k3", lazy, at), MaxForks: 1024, MaxPaths: 20000})
				}
			}
			// never-ending programs on an address-consistent bus, cancelled at the at-th bus access
			maxAt := 6
			if tier == "thorough" {
				maxAt = 10
			}
			for kind := 0; kind <= 13; kind++ {
				for at := 0; at <= maxAt; at++ {
					for mode := 0; mode <= 4; mode++ {
						if mode > 0 && !(kind == 0 || kind == 3 || kind == 13) && !(mode == 4 && kind == 1) {
							continue
						}
						if mode == 4 && (kind > 1 || at > 2) {
							continue
						}
						jobs = append(jobs, Job{Dir: "z80", Harness: "VC13Loop", Params: []int{kind, at, mode}, Label: fmt.Sprintf("VC13Loop/kind%d/at%d/mode%d", kind, at, mode), MaxForks: 256, MaxPaths: 2000})
					}
				}
			}
			return jobs
		},
		Bounds: map[string]interface{}{"programs": "all programs of <= 3 (thorough 4) instructions from {HALT, NOP, JP nn, LD BC,nn, INC A} with arbitrary operands and start state", "cancellation_instants": "before the call, or while instruction 0..k-1 is fetched; never = C08", "schedules": "the watcher goroutine runs to completion at the moment its context is cancelled (sequential model); every later schedule equals a later cancellation instant; weak-memory reorderings are not explored here (see the happens-before obligations)"},
		Assume: []string{"context contract: Done() is closed after cancel() or parent cancellation, Err() is then non-nil; a deadline context's deadline does not pass within the bound", "wall-clock latency of the Go scheduler, runtime goroutine accounting and the context implementation itself are outside the claim: 'bounded delay' is decided as 'no instruction starts once the flag is published'", "race-freedom: vector clocks over the executed interleaving (go edge, atomic store->load, cancel->Done, channel send->receive, mutex, close); schedules other than 'the watcher runs as soon as it is runnable' are covered only as later cancellation instants"},
		Stubs:  []string{"context.WithCancel/WithTimeout/WithDeadline/Background (opaque contexts with a cancellation tree)", "ctx.Done()/Err()/Deadline()", "sync/atomic Load/Store (accesses tagged atomic, release/acquire)", "sync.Mutex (release/acquire)", "go statement: coroutine", "channels, select, close (modelled)", "time.AfterFunc/NewTimer/Stop (armed, never fires within the bound)", "errors.New", "log.Printf"},
		Rule:   "one job per cancellation instant; every path is one program shape; obligations: returned error is the context's, promptness, final state equals a whole number of Steps of a twin, watcher finished, event order",
	})
}

func init() {
	register(&PropCheck{
		ID:   "C15",
		Dirs: []string{"z80"},
		Jobs: func(tier string, seed int64) []Job {
			var jobs []Job
			mk := func(h string, ps ...int) {
				l := h
				for _, p := range ps {
					l += fmt.Sprintf("/%d", p)
				}
				jobs = append(jobs, Job{Dir: "z80", Harness: h, Params: ps, Label: l, MaxForks: 4096, MaxPaths: 20000})
			}
			maxK, maxN := 4, 3
			if tier == "thorough" {
				maxK, maxN = 8, 4
			}
			mk("VC15DumbMemGetSet")
			mk("VC15DumbMemPutN")
			mk("VC15DumbIO")
			for k := 0; k <= maxK; k++ {
				mk("VC15DumbMemPut", k)
				if k >= 2 {
					mk("VC15DumbMemPutSelf", k)
				}
			}
			for n := 0; n <= maxN; n++ {
				mk("VC15MapGetSet", n)
				mk("VC15MapClone", n)
				mk("VC15MapClear", n)
				mk("VC15MapEqual", n)
				for k := 0; k <= maxK; k++ {
					mk("VC15MapPut", n, k)
				}
			}
			return jobs
		},
		Bounds: map[string]interface{}{"slices": "length symbolic 0..65536 (DumbIO too: a slice longer than 256 ports is legal), any address/port/value", "put": "data length 0..4 (thorough 0..8), case split", "maps": "arbitrary initial maps with <= 3 (thorough 4) entries (symbolic keys, presence bits and values; iteration order = any permutation by symmetry of the symbolic keys); range loops unwound with an unwinding assertion"},
		Assume: []string{"reflect.DeepEqual by its documented contract (maps equal iff same keys with equal values, nil != empty)", "MapMemory initialised (non-nil); DumbMemory.Put is claimed only for a block inside the slice (the property's precondition)", "histories of operations: by induction from the one-step refinement (paper step)"},
		Stubs:  []string{"reflect.DeepEqual (contract)"},
		Rule:   "one job per method / size; obligations compare the method's result and the post-state at an arbitrary probe address with the byte-map model",
	})
}

var pinnedImages = map[string]string{
	"cmd/zexdoc/zexdoc.cim": "b3015112a99bb72273e0cacde7c7549eb9840ba996af76f7bf7992ef7d6e2f90",
	"cmd/zexdoc/zexall.cim": "fbb1bb5d46f61c33ea6841a71f2b23c49b9b62410ce6ed4e57b7d9b2e7b437e0",
}

func init() {
	register(&PropCheck{
		ID:   "C17",
		Dirs: []string{"zex"},
		Jobs: func(tier string, seed int64) []Job {
			var jobs []Job
			for v := 0; v < 2; v++ {
				nm := []string{"doc", "all"}[v]
				jobs = append(jobs, Job{Dir: "zex", Harness: "VC17Count", Params: []int{v}, Label: "VC17Count/" + nm, Unwind: 100000})
				for i := 0; i < 67; i++ {
					jobs = append(jobs, Job{Dir: "zex", Harness: "VC17Case", Params: []int{v, i}, Label: fmt.Sprintf("VC17Case/%s/%02d", nm, i), Unwind: 100000})
				}
			}
			return jobs
		},
		Post: func(c *CheckCtx) {
			digests := map[string]string{}
			for rel, want := range pinnedImages {
				b, err := os.ReadFile(filepath.Join(repoDir, rel))
				if err != nil {
					c.structural("image/"+rel, "cannot read image: "+err.Error())
					continue
				}
				got := fmt.Sprintf("%x", sha256.Sum256(b))
				digests[rel] = got
				if got != want {
					c.structural("image-digest/"+rel, "image is not the canonical one: sha256 "+got+" != pinned "+want)
				}
			}
			c.Extra["image_sha256"] = digests
		},
		Bounds:  map[string]interface{}{"cases": "2 x 67, all", "bytes": "all 96 bytes of each record (mask, 3 x 20 state bytes, CRC, description padded to 30 + '$'); the byte offset inside the record is a solver variable", "tables": "obtained by executing internal/zex's real package initialiser and Status.Bytes in the interpreter"},
		Assume:  []string{"the pinned SHA-256 digests identify the canonical zexdoc.cim / zexall.cim", "record layout of zexdoc.asm: pointer table named by `ld hl,tests` at file offset 0x1f, records located through it"},
		Stubs:   []string{"vFile: bytes of the image read from /repo's working tree (ground data)"},
		Rule:    "one job per case: the Go record (from the real initialiser and accessor code) must equal the image record at a symbolic byte offset; plus the case count through the 0-terminated pointer table; ground data — the solver's role is a finite comparison (said so in DESIGN.md C17)",
		Exhaust: true,
	})
}

func init() {
	register(&PropCheck{
		ID:   "C18",
		Dirs: []string{"tinycpm"},
		Jobs: func(tier string, seed int64) []Job {
			var jobs []Job
			mk := func(h string, ps ...int) {
				l := h
				for _, p := range ps {
					l += fmt.Sprintf("/%d", p)
				}
				// small fork/path bounds: on the unchanged tree the longest job has 4 paths;
				// a CPU that runs off into symbolic memory is cut off (undecided) quickly
				jobs = append(jobs, Job{Dir: "tinycpm", Harness: h, Params: ps, Label: l, MaxForks: 16, MaxPaths: 48, Unwind: 100000, Alias: true, BudgetS: map[bool]int{true: 300, false: 25}[tier == "thorough"]})
			}
			mk("VC18Fn2")
			maxN := 3
			if tier == "thorough" {
				maxN = 5
			}
			for n := 0; n <= maxN; n++ {
				mk("VC18Fn9", n)
			}
			mk("VC18Fn9Lemma")
			mk("VC18Seq")
			mk("VC18WarmBoot")
			mk("VC18IO")
			for kinds := 0; kinds <= 3; kinds++ {
				mk("VC18Reconfig", kinds)
			}
			mk("VC18Volume")
			return jobs
		},
		Bounds: map[string]interface{}{"steps": "<= 10+6n (n <= 3, thorough 5) per call", "symbolic": "call site anywhere outside the BIOS pages, SP, all registers, the whole program area, string address and bytes (any value but '$', 0x00 and >= 0x80 included)", "strings": "length 0..3 (thorough 5) end to end; longer only via the per-character lemma at the loop head 0xFE14 + induction (paper step)"},
		Assume: []string{"the BIOS is what NewMemory installs at 0x0000-0x0007, 0xFE06-0xFE1C and 0xFF03 (every other byte is arbitrary); the program, its stack and its string lie in 0x0100-0xFDFF and do not overlap each other", "unsupported function numbers are outside the statement", "sequences of calls: by composition (each call returns with the caller's state intact)"},
		Stubs:  []string{"log.New / (*log.Logger).Printf: one warning event per call", "console = harness io.Writer that records the bytes"},
		Rule:   "one job per function / string length; the real BIOS bytes run on the real Step, Memory and IO; obligations: console contents, return address, SP, preserved registers, memory outside the two stack bytes, warnings",
	})
}

func init() {
	register(&PropCheck{
		ID:   "C19",
		Dirs: []string{"cim2bin", "cim2cas"},
		Jobs: func(tier string, seed int64) []Job {
			var jobs []Job
			for _, k := range []int{1, 5, 12} {
				jobs = append(jobs, Job{Dir: "cim2bin", Harness: "VC19Bin", Params: []int{k, 0}, Label: fmt.Sprintf("VC19Bin/k%d", k), MaxPaths: 64})
			}
			for k := 1; k <= 12; k++ {
				jobs = append(jobs, Job{Dir: "cim2cas", Harness: "VC19Cas", Params: []int{k, 0, 0}, Label: fmt.Sprintf("VC19Cas/file%d/default-name", k), MaxPaths: 64})
			}
			for m := 1; m <= 12; m++ {
				jobs = append(jobs, Job{Dir: "cim2cas", Harness: "VC19Cas", Params: []int{8, m, 0}, Label: fmt.Sprintf("VC19Cas/file8/nam%d", m), MaxPaths: 64})
			}
			// conversion in place: -cim names the output file
			jobs = append(jobs, Job{Dir: "cim2bin", Harness: "VC19Bin", Params: []int{7, 1}, Label: "VC19Bin/in-place", MaxPaths: 64})
			jobs = append(jobs, Job{Dir: "cim2cas", Harness: "VC19Cas", Params: []int{7, 3, 1}, Label: "VC19Cas/in-place", MaxPaths: 64})
			return jobs
		},
		Bounds: map[string]interface{}{"image": "length L symbolic 1..65536 with symbolic content (the body is one chunk), offset symbolic with off+L-1 <= 0xFFFF", "names": "file name length 1..12 (default name), -nam length 1..12, case split; characters symbolic"},
		Assume: []string{"flag.Parse stores the given values in the registered variables; os.ReadFile returns the file's bytes; os.Create succeeds; bufio.Writer delivers the written bytes, unmodified and in order, once flushed (error returns end the path, nothing asserted)", "file names are made of [a-z0-9] so that the native replay can create them", "the operating system and real files are outside (the replay does use real temp files)"},
		Stubs:  []string{"flag.StringVar/UintVar/Parse", "os.ReadFile", "os.Create", "(*os.File).Close", "bufio.NewWriter", "(*bufio.Writer).WriteByte/Write/Flush"},
		Rule:   "one job per name length; obligations: every header byte, total length, flushed+closed, and the body compared at a symbolic offset with the input slice",
	})
}
