package main

// Property definitions: which jobs, which obligations, bounds and notes.

import "fmt"

var stepStubs = []string{"harness bus Get/Set/In/Out (SMT array + trace, In returns an unconstrained byte)", "log.Printf (no effect, recorded as warning)", "math/bits.OnesCount8 (sum of bits)"}

func stepJobs(encs []Enc, harness string, extra ...int) []Job {
	jobs := make([]Job, 0, len(encs))
	for _, e := range encs {
		ps := append([]int{e.Tbl, e.Op}, extra...)
		jobs = append(jobs, Job{Dir: "z80", Harness: harness, Params: ps, Label: fmt.Sprintf("%s/%s", harness, e)})
	}
	return jobs
}

func inSet(name string, set ...string) bool {
	for _, s := range set {
		if s == name {
			return true
		}
	}
	return false
}

func init() {
	register(&PropCheck{
		ID:   "C01",
		Dirs: []string{"z80"},
		Jobs: func(tier string, seed int64) []Job { return stepJobs(allEncodings(), "VStep") },
		Only: func(job Job, a string) bool {
			return inSet(a, "A", "F", "BC", "DE", "HL", "alt", "IX", "IY", "SP", "PC", "I", "IFF1", "IFF2", "IM", "HALT", "intr", "mem", "portcount", "ports", "nopanic")
		},
		Bounds:  map[string]interface{}{"steps": 1, "opcode_bytes": "concrete, all 7 tables x 256 (1786 leaf encodings)", "symbolic": "all of States, HALT, 64 KiB memory, displacement/immediates, port inputs", "loop_unwinding": "none needed: Step is loop-free (unwinding assertion active)"},
		Assume:  []string{"Interrupt == nil", "Memory and IO are an ideal RAM / passive port space (harness bus)", "reference model vSpecStep is the Z80 definition (DESIGN.md §4)"},
		Stubs:   stepStubs,
		Rule:    "one job per leaf encoding; every feasible path of CPU.Step is explored; one obligation per compared state component per path",
		Exhaust: true,
	})

	stepBounds := func(what string) map[string]interface{} {
		return map[string]interface{}{"steps": 1, "opcode_bytes": "concrete, " + what, "symbolic": "all of States, HALT, 64 KiB memory, displacement/immediates, port inputs", "loop_unwinding": "none needed: Step is loop-free (unwinding assertion active)"}
	}
	stepAssume := []string{"Interrupt == nil", "Memory and IO are an ideal RAM / passive port space (harness bus)", "reference model vSpecStep is the Z80 definition (DESIGN.md §4)"}
	register(&PropCheck{
		ID:   "C02",
		Dirs: []string{"z80"},
		Jobs: func(tier string, seed int64) []Job { return stepJobs(encsOf("alu8", "rot", "bit"), "VStep") },
		Only: func(job Job, a string) bool {
			return inSet(a, "A", "F", "BC", "DE", "HL", "IX", "IY", "mem")
		},
		Bounds: stepBounds("every encoding of the 8-bit ALU / rotate-shift / BIT-SET-RES families; complete A x operand x F cube per encoding"),
		Assume: stepAssume, Stubs: stepStubs, Exhaust: true,
		Rule: "one job per encoding of the families; obligations: A, F (under the model's mask) and the written operand (register or memory byte)",
	})
	register(&PropCheck{
		ID:   "C03",
		Dirs: []string{"z80"},
		Jobs: func(tier string, seed int64) []Job { return stepJobs(encsOf("arith16", "incdec16"), "VStep") },
		Only: func(job Job, a string) bool {
			return inSet(a, "F", "BC", "DE", "HL", "IX", "IY", "SP")
		},
		Bounds: stepBounds("ADD HL/IX/IY,ss; ADC/SBC HL,ss; INC/DEC ss/IX/IY; complete 2^32 operand pairs x F per encoding"),
		Assume: stepAssume, Stubs: stepStubs, Exhaust: true,
		Rule: "one job per encoding; obligations: the register pairs and F",
	})
	register(&PropCheck{
		ID:   "C04",
		Dirs: []string{"z80"},
		Jobs: func(tier string, seed int64) []Job { return stepJobs(encsOf("jump", "call", "ret", "stack"), "VStep") },
		Only: func(job Job, a string) bool {
			return inSet(a, "A", "F", "BC", "DE", "HL", "IX", "IY", "SP", "PC", "mem", "tracelen", "trace")
		},
		Bounds: stepBounds("all jump/call/return/RST/PUSH/POP/EX (SP) encodings; all 256 F / B values"),
		Assume: stepAssume, Stubs: stepStubs, Exhaust: true,
		Rule: "one job per encoding; obligations: PC, SP, registers, F, memory and the access trace (stack bytes)",
	})
	register(&PropCheck{
		ID:   "C05",
		Dirs: []string{"z80"},
		Jobs: func(tier string, seed int64) []Job { return stepJobs(allEncodings(), "VStep") },
		Only: func(job Job, a string) bool {
			return inSet(a, "tracelen", "trace", "rmw-order", "portcount", "ports")
		},
		Bounds: stepBounds("all 7 tables x 256 (1786 leaf encodings); trace length <= 8 (longest observed is reported)"),
		Assume: stepAssume, Stubs: stepStubs, Exhaust: true,
		Rule: "one job per leaf encoding; obligations: trace length, multiset equality of (kind,address,value) tuples with the model's trace, ordered port log, no read after write",
	})
	register(&PropCheck{
		ID:   "C14",
		Dirs: []string{"z80"},
		Jobs: func(tier string, seed int64) []Job { return stepJobs(allEncodings(), "VStep") },
		Only: func(job Job, a string) bool {
			if inSet(a, "R", "I") {
				return true
			}
			e := Enc{job.Params[0], job.Params[1]}
			return classify(e) == "ir" && inSet(a, "A", "F")
		},
		Bounds: stepBounds("all 7 tables x 256 (1786 leaf encodings), unsupported ones included; all R and I"),
		Assume: stepAssume, Stubs: stepStubs, Exhaust: true,
		Rule: "one job per leaf encoding; obligations: R (2-or-3 accept set for DDCB/FDCB) and I; A and F for LD A,I / LD A,R / LD I,A / LD R,A",
	})
}

func ddfdEncs() []Enc {
	var out []Enc
	for op := 0; op < 256; op++ {
		if op != 0xcb {
			out = append(out, Enc{3, op})
		}
	}
	for op := 0; op < 256; op++ {
		out = append(out, Enc{5, op})
	}
	return out
}

func init() {
	register(&PropCheck{
		ID:   "C11",
		Dirs: []string{"z80"},
		Jobs: func(tier string, seed int64) []Job {
			return append(stepJobs(ddfdEncs(), "VC11"), stepJobs(ddfdEncs(), "VC11Indep")...)
		},
		Bounds:  map[string]interface{}{"steps": 1, "opcode_bytes": "concrete: all 255 second bytes after DD/FD and all 256 fourth bytes after DDCB/FDCB", "symbolic": "all of States (IX, IY independent), HALT, memory, displacement, port inputs"},
		Assume:  []string{"no data access of the DD run hits the prefix byte at PC (the one byte where the two programs differ by construction)", "ideal RAM / passive ports", "Interrupt == nil"},
		Stubs:   stepStubs,
		Rule:    "per byte: one relational job DD(S) vs FD(swap S) (state, HALT, trace element-wise except the first fetch's value, memory) and one independence job (two DD runs differing only in IY)",
		Exhaust: true,
	})
	register(&PropCheck{
		ID:   "C10",
		Dirs: []string{"z80"},
		Jobs: func(tier string, seed int64) []Job { return stepJobs(allEncodings(), "VC10") },
		Post: func(c *CheckCtx) {
			// isolation: no path of Step writes a package-level variable
			w := map[string]bool{}
			rd := map[string]bool{}
			for _, jr := range c.Results {
				for g := range jr.GlobalW {
					w[g] = true
				}
				for g := range jr.GlobalR {
					rd[g] = true
				}
			}
			c.Extra["package_vars_written_by_Step"] = sortedKeys(w)
			c.Extra["package_vars_read_by_Step"] = sortedKeys(rd)
			for g := range w {
				c.structural("global-write/"+g, "a path of CPU.Step writes package-level variable "+g+": two CPUs on different goroutines would share (and race on) it")
			}
		},
		Bounds:  map[string]interface{}{"steps": 1, "opcode_bytes": "concrete, all 1786 leaf encodings", "hidden": "every field of CPU other than States/Memory/IO/Interrupt/handlers is havocked independently in the two copies (taken from the type, so fields added later are included)"},
		Assume:  []string{"ideal RAM / passive ports shared as equal answers", "goroutine interleavings are not executed: race-freedom is argued from the footprint (no package-level variable written, disjoint object graphs)"},
		Stubs:   stepStubs,
		Rule:    "per encoding one 2-copy job: equal States + equal bus answers, all other CPU fields independent, must give equal States, trace and memory; plus footprint: package-level variables written on any explored path",
		Exhaust: true,
	})
}
