package main

import (
	"go/types"

	"golang.org/x/tools/go/ssa"
)

func typesPointer(t types.Type) types.Type { return types.NewPointer(t) }

func findCycle(root *ssa.Function) string {
	state := map[*ssa.Function]int{}
	var cyc string
	var dfs func(f *ssa.Function)
	dfs = func(f *ssa.Function) {
		if cyc != "" || f == nil || f.Blocks == nil || !inRepo(f) {
			return
		}
		switch state[f] {
		case 1:
			cyc = f.Name()
			return
		case 2:
			return
		}
		state[f] = 1
		for _, b := range f.Blocks {
			for _, ins := range b.Instrs {
				if c, ok := ins.(ssa.CallInstruction); ok {
					if callee := c.Common().StaticCallee(); callee != nil {
						dfs(callee)
					}
				}
			}
		}
		state[f] = 2
	}
	dfs(root)
	return cyc
}
