package main

import (
	"encoding/json"
	"flag"
	"fmt"
	"os"
	"strconv"
	"strings"
)

func jsonIndent(v interface{}) ([]byte, error) { return json.MarshalIndent(v, "", " ") }

func main() {
	if r := os.Getenv("ZSYM_REPO"); r != "" {
		repoDir = r
	}
	// the framework directory: where check.sh lives (= the working directory)
	if v := os.Getenv("ZSYM_VERIF"); v != "" {
		verifDir = v
	} else if wd, err := os.Getwd(); err == nil {
		if _, err := os.Stat(wd + "/harness/lib/vlib.go"); err == nil {
			verifDir = wd
		}
	}
	if len(os.Args) < 2 {
		fmt.Fprintln(os.Stderr, "usage: zsym run|check|replay ...")
		os.Exit(2)
	}
	switch os.Args[1] {
	case "run":
		cmdRun(os.Args[2:])
	case "check":
		os.Exit(cmdCheck(os.Args[2:]))
	case "replay":
		os.Exit(cmdReplay(os.Args[2:]))
	case "oracle":
		os.Exit(cmdOracle(os.Args[2:]))
	case "tv":
		os.Exit(cmdTV(os.Args[2:]))
	default:
		fmt.Fprintln(os.Stderr, "unknown command")
		os.Exit(2)
	}
}

// run: developer tool — one harness, print everything.
func cmdRun(args []string) {
	fs := flag.NewFlagSet("run", flag.ExitOnError)
	dir := fs.String("dir", "z80", "harness dir")
	h := fs.String("harness", "", "harness function")
	ps := fs.String("params", "", "comma separated ints")
	solver := fs.String("solver", "z3", "z3|z3-new|cvc5")
	native := fs.Bool("native", false, "replay counterexamples natively")
	verbose := fs.Bool("v", false, "verbose")
	fs.Parse(args)
	L, err := Load([]string{*dir})
	if err != nil {
		fmt.Fprintln(os.Stderr, err)
		os.Exit(2)
	}
	defer L.Close()
	var params []int
	if *ps != "" {
		for _, s := range strings.Split(*ps, ",") {
			v, err := strconv.ParseInt(s, 0, 64)
			if err != nil {
				fmt.Fprintln(os.Stderr, err)
				os.Exit(2)
			}
			params = append(params, int(v))
		}
	}
	r := &Runner{L: L, solver: *solver, timeoutMs: 20000, workers: 1}
	job := Job{Dir: *dir, Harness: *h, Params: params, Label: *h}
	if os.Getenv("ZSYM_PROBE") != "" {
		job.ProbeHang, job.BudgetS = true, 20
	}
	res := r.RunJobs([]Job{job})
	jr := res[0]
	fmt.Printf("load %.1fs paths=%d ok=%d infeasible=%d panic=%d undecided=%v err=%q queries=%d solver=%.3fs instrs=%d witness=%d\n",
		L.loadTime.Seconds(), jr.Paths, jr.OkPaths, jr.Infeasible, jr.PanicPaths, jr.Undecided, jr.Err, jr.Queries, jr.SolverTime.Seconds(), jr.Instrs, jr.Witness)
	var files []string
	for _, o := range jr.Obls {
		if *verbose || o.Verdict != "unsat" && o.Verdict != "trivial" {
			fmt.Printf("  %-8s %-40s %6.1fms %s\n", o.Verdict, o.Name, o.Ms, o.Detail)
		}
		if o.Replay != nil {
			p, _ := writeReplay(o.Replay, "DEV", o.Name)
			fmt.Println("    replay:", p)
			if *verbose {
				b, _ := json.Marshal(o.Replay.Vals)
				fmt.Println("    ", string(b))
			}
			files = append(files, p)
		}
	}
	if *native && len(files) > 0 {
		nr, out, err := L.RunNative(*dir, files, false)
		fmt.Println("native:", err)
		for i, x := range nr {
			fmt.Printf("  %s failed=%v unmet=%d panic=%q\n", files[i], x.Failed, x.Unmet, x.Panic)
		}
		if err != nil {
			fmt.Println(out)
		}
	}
	if *verbose {
		for _, f := range sortedFuncs(res) {
			fmt.Println("  fn", f)
		}
	}
}

// oracle: validate the reference model by running the zex cases on it natively.
func cmdOracle(args []string) int {
	mode := "quick"
	if len(args) > 0 {
		mode = args[0]
	}
	L, err := Load([]string{"z80"})
	if err != nil {
		fmt.Fprintln(os.Stderr, err)
		return 2
	}
	defer L.Close()
	out, err := L.GoTestNative("z80", "^TestVOracleZex$", []string{"VERIF_ORACLE=" + mode}, "60m")
	fmt.Println(lastLines(out, 12))
	if err != nil {
		return 1
	}
	return 0
}

// tv: translator validation on its own.
func cmdTV(args []string) int {
	per := 2
	every := 9
	if len(args) > 0 && args[0] == "thorough" {
		per, every = 11, 1
	}
	L, err := Load([]string{"z80"})
	if err != nil {
		fmt.Fprintln(os.Stderr, err)
		return 2
	}
	defer L.Close()
	r := &Runner{L: L, solver: "z3", timeoutMs: 20000, workers: 16}
	var encs []Enc
	for i, e := range allEncodings() {
		if i%every == 0 {
			encs = append(encs, e)
		}
	}
	res := r.TranslatorValidation(encs, per, 1)
	fmt.Printf("translator validation: vectors=%d agreed=%d nopath=%d mismatches=%d\n", res.Vectors, res.Agreed, res.NoPath, len(res.Mismatches))
	for _, m := range res.Mismatches {
		fmt.Println("  ", m)
	}
	if len(res.Mismatches) > 0 || res.Agreed != res.Vectors {
		return 1
	}
	return 0
}
