package main

// Long-lived SMT solver process (z3 -in / cvc5 --incremental), one per worker.
// Every query is self-contained inside a push/pop scope.

import (
	"bufio"
	"fmt"
	"io"
	"os"
	"os/exec"
	"strconv"
	"strings"
	"syscall"
	"time"
)

type Verdict int

const (
	Unsat Verdict = iota
	Sat
	Unknown
)

func (v Verdict) String() string { return [...]string{"unsat", "sat", "unknown"}[v] }

type Solver struct {
	name    string
	cmd     *exec.Cmd
	in      io.WriteCloser
	out     *bufio.Reader
	Queries int
	Retries int
	lines   chan string // solver output, one line per message (closed on EOF)
	Killed  int
	Time    time.Duration
	timeout int // ms per query
	dead    bool
	dump    io.Writer
	// portfolio: queries the primary z3 leaves unknown go to the other installed
	// solvers (started on first use) before z3 gets its full timeout
	fallback   []*Solver
	noFallback bool
	Fallbacks  map[string]int // queries decided by a fallback solver, per solver
}

func solverArgs(kind string, timeoutMs int) (string, []string) {
	switch kind {
	case "z3":
		return "z3", []string{"-in"}
	case "z3-new":
		return "z3-new", []string{"-in"}
	case "cvc5":
		return "cvc5", []string{"--incremental", "--produce-models", "--lang=smt2", fmt.Sprintf("--tlimit-per=%d", timeoutMs)}
	}
	panic("unknown solver " + kind)
}

func NewSolver(kind string, timeoutMs int) (*Solver, error) {
	bin, args := solverArgs(kind, timeoutMs)
	cmd := exec.Command(bin, args...)
	in, err := cmd.StdinPipe()
	if err != nil {
		return nil, err
	}
	out, err := cmd.StdoutPipe()
	if err != nil {
		return nil, err
	}
	cmd.Stderr = nil
	// never leave a spinning solver behind when the engine is killed
	cmd.SysProcAttr = &syscall.SysProcAttr{Pdeathsig: syscall.SIGKILL}
	if err := cmd.Start(); err != nil {
		return nil, err
	}
	s := &Solver{name: kind, cmd: cmd, in: in, out: bufio.NewReaderSize(out, 1<<20), timeout: timeoutMs, lines: make(chan string, 256)}
	go func() {
		for {
			l, err := s.out.ReadString('\n')
			if l != "" {
				s.lines <- strings.TrimRight(l, "\r\n")
			}
			if err != nil {
				close(s.lines)
				return
			}
		}
	}()
	if d := os.Getenv("ZSYM_DUMP"); d != "" {
		if f, err := os.OpenFile(d, os.O_CREATE|os.O_WRONLY|os.O_APPEND, 0o644); err == nil {
			s.dump = f
		}
	}
	if kind == "cvc5" {
		s.send("(set-logic ALL)\n")
	}
	s.send("(set-option :produce-models true)\n")
	return s, nil
}

func (s *Solver) send(txt string) {
	if s.dump != nil {
		io.WriteString(s.dump, txt)
	}
	if _, err := io.WriteString(s.in, txt); err != nil {
		s.dead = true
	}
}

func (s *Solver) Close() {
	if s == nil || s.cmd == nil {
		return
	}
	for _, f := range s.fallback {
		f.Close()
	}
	s.fallback = nil
	s.in.Close()
	done := make(chan struct{})
	go func() { s.cmd.Wait(); close(done) }()
	select {
	case <-done:
	case <-time.After(2 * time.Second):
		s.cmd.Process.Kill()
	}
}

// readLine waits for the next output line; a solver that stays silent well past
// its own timeout is killed (its soft timeout is not honoured inside some
// preprocessing steps) and the query is reported as unknown.
func (s *Solver) readLine() (string, error) {
	limit := time.Duration(s.timeout)*time.Millisecond + 15*time.Second
	select {
	case l, ok := <-s.lines:
		if !ok {
			return "", io.EOF
		}
		return l, nil
	case <-time.After(limit):
		s.Killed++
		s.cmd.Process.Kill()
		return "", fmt.Errorf("solver silent for %v: killed", limit)
	}
}

// Check decides satisfiability of the conjunction of asserts.  If want is
// non-empty and the result is sat, the values of those terms are returned
// (bit-vectors and bools only).
func (s *Solver) Check(asserts []*Term, want []*Term) (Verdict, []uint64, string) {
	if s.dead {
		return Unknown, nil, "solver process died"
	}
	start := time.Now()
	defer func() { s.Time += time.Since(start); s.Queries++ }()
	if s.name == "cvc5" {
		return s.check1(asserts, want, false, 0)
	}
	// z3: first incrementally (push/pop, sub-millisecond for the common trivial
	// query) under a short timeout; a query the incremental core does not finish
	// is repeated in a fresh context ((reset)), where z3 applies its full
	// preprocessing (array + bit-vector queries: 300 ms -> 15 ms)
	v, vals, errs := s.check1(asserts, want, false, 250)
	if v != Unknown || s.dead {
		return v, vals, errs
	}
	s.Retries++
	if s.name != "z3" || s.noFallback {
		return s.check1(asserts, want, true, s.timeout)
	}
	// fresh context, short: most retried queries are decided here in milliseconds
	short := 2000
	if s.timeout < short {
		short = s.timeout
	}
	v, vals, errs = s.check1(asserts, want, true, short)
	if v != Unknown || s.dead {
		return v, vals, errs
	}
	// the other solvers (a query that costs z3 4.8.12 more than 20 s can take
	// z3 5.1 half a second and cvc5 50 ms); their answers count like z3's - the
	// thorough tier re-decides every obligation with all three anyway
	if s.fallback == nil {
		for _, k := range []string{"z3-new", "cvc5"} {
			if f, err := NewSolver(k, s.timeout); err == nil {
				f.noFallback = true
				s.fallback = append(s.fallback, f)
			}
		}
		if s.fallback == nil {
			s.fallback = []*Solver{}
		}
	}
	for _, f := range s.fallback {
		if f.dead {
			continue
		}
		var fv Verdict
		var fvals []uint64
		if f.name == "cvc5" {
			fv, fvals, _ = f.check1(asserts, want, false, 0)
		} else {
			fv, fvals, _ = f.check1(asserts, want, true, s.timeout)
		}
		if fv != Unknown {
			if s.Fallbacks == nil {
				s.Fallbacks = map[string]int{}
			}
			s.Fallbacks[f.name]++
			return fv, fvals, ""
		}
	}
	if s.timeout <= short {
		return Unknown, nil, errs
	}
	return s.check1(asserts, want, true, s.timeout)
}

func (s *Solver) check1(asserts []*Term, want []*Term, useReset bool, timeoutMs int) (Verdict, []uint64, string) {
	var sb strings.Builder
	if useReset {
		sb.WriteString("(reset)\n(set-option :produce-models true)\n")
	} else {
		sb.WriteString("(push 1)\n")
	}
	if timeoutMs > 0 {
		fmt.Fprintf(&sb, "(set-option :timeout %d)\n", timeoutMs)
	}
	endScope := func() {
		if useReset {
			// leave nothing behind: the next incremental query must not inherit
			// this query's declarations and assertions
			s.send("(reset)\n")
		} else {
			s.send("(pop 1)\n")
		}
	}
	done := map[int]string{}
	names := emit(&sb, done, asserts...)
	for _, n := range names {
		fmt.Fprintf(&sb, "(assert %s)\n", n)
	}
	var wn []string
	if len(want) > 0 {
		names := emit(&sb, done, want...)
		for i, n := range names {
			w := fmt.Sprintf("w!%d", i)
			fmt.Fprintf(&sb, "(define-fun %s () %s %s)\n", w, sortStr(want[i].w), n)
			wn = append(wn, w)
		}
	}
	sb.WriteString("(check-sat)\n(echo \"@@done\")\n")
	// a solver busy with the previous text does not drain its stdin: never block on
	// the pipe, the read below carries the deadline
	go s.send(sb.String())
	var verdict Verdict = Unknown
	errs := ""
	got := false
	for {
		l, err := s.readLine()
		if err != nil {
			s.dead = true
			return Unknown, nil, "solver EOF: " + errs
		}
		if l == "@@done" || l == "\"@@done\"" {
			break
		}
		switch {
		case l == "sat" && !got:
			verdict, got = Sat, true
		case l == "unsat" && !got:
			verdict, got = Unsat, true
		case l == "unknown" || l == "timeout":
			got = true
		case strings.HasPrefix(l, "(error"):
			errs += l
		}
	}
	if errs != "" {
		endScope()
		return Unknown, nil, errs
	}
	var vals []uint64
	if verdict == Sat && len(want) > 0 {
		// one get-value per term keeps parsing trivial
		var q strings.Builder
		for _, n := range wn {
			fmt.Fprintf(&q, "(get-value (%s))\n", n)
		}
		q.WriteString("(echo \"@@done\")\n")
		s.send(q.String())
		var lines []string
		for {
			l, err := s.readLine()
			if err != nil {
				s.dead = true
				return Unknown, nil, "solver EOF in get-value"
			}
			if l == "@@done" || l == "\"@@done\"" {
				break
			}
			lines = append(lines, l)
		}
		txt := strings.Join(lines, " ")
		if strings.Contains(txt, "(error") {
			endScope()
			return Unknown, nil, txt
		}
		vals = parseValues(txt, len(want))
		if vals == nil {
			endScope()
			return Unknown, nil, "cannot parse model: " + txt
		}
	}
	endScope()
	return verdict, vals, ""
}

// parseValues extracts, in order, the literal of each "((w!i lit))".
func parseValues(txt string, n int) []uint64 {
	var out []uint64
	for i := 0; i < n; i++ {
		key := fmt.Sprintf("(w!%d ", i)
		k := strings.Index(txt, key)
		if k < 0 {
			return nil
		}
		rest := strings.TrimLeft(txt[k+len(key):], " ")
		switch {
		case strings.HasPrefix(rest, "#x"), strings.HasPrefix(rest, "#b"):
			e := 2
			for e < len(rest) && isHex(rest[e]) {
				e++
			}
			base := 16
			if rest[1] == 'b' {
				base = 2
			}
			v, err := strconv.ParseUint(rest[2:e], base, 64)
			if err != nil {
				return nil
			}
			out = append(out, v)
		case strings.HasPrefix(rest, "true"):
			out = append(out, 1)
		case strings.HasPrefix(rest, "false"):
			out = append(out, 0)
		case strings.HasPrefix(rest, "(_ bv"):
			e := 5
			for e < len(rest) && rest[e] >= '0' && rest[e] <= '9' {
				e++
			}
			v, err := strconv.ParseUint(rest[5:e], 10, 64)
			if err != nil {
				return nil
			}
			out = append(out, v)
		default:
			return nil
		}
	}
	return out
}

func isHex(c byte) bool {
	return (c >= '0' && c <= '9') || (c >= 'a' && c <= 'f') || (c >= 'A' && c <= 'F')
}
