package main

// Term layer: hash-consed DAG of bit-vector / Bool / array terms with an eager
// simplifier, and an SMT-LIB2 printer.  One Store per worker (not shared).

import (
	"fmt"
	"sort"
	"strings"
)

type Op uint8

const (
	OpConst    Op = iota // bit-vector or bool constant (val)
	OpVar                // free variable (name)
	OpConstArr           // constant array, every element = val
	OpAdd
	OpSub
	OpMul
	OpUdiv
	OpUrem
	OpSdiv
	OpSrem
	OpAnd
	OpOr
	OpXor
	OpBvNot
	OpNeg
	OpShl
	OpLshr
	OpAshr
	OpConcat
	OpExtract // p1=hi p2=lo
	OpZext    // to width w
	OpSext    // to width w
	OpEq
	OpUlt
	OpUle
	OpSlt
	OpSle
	OpNot // bool
	OpBAnd
	OpBOr
	OpIte
	OpSelect
	OpStore
	OpArrCopy // (dst, src, doff, soff, n): dst with n elements of src from soff copied to doff
)

var opNames = map[Op]string{
	OpAdd: "bvadd", OpSub: "bvsub", OpMul: "bvmul", OpUdiv: "bvudiv", OpUrem: "bvurem",
	OpSdiv: "bvsdiv", OpSrem: "bvsrem", OpAnd: "bvand", OpOr: "bvor", OpXor: "bvxor",
	OpBvNot: "bvnot", OpNeg: "bvneg", OpShl: "bvshl", OpLshr: "bvlshr", OpAshr: "bvashr",
	OpConcat: "concat", OpEq: "=", OpUlt: "bvult", OpUle: "bvule", OpSlt: "bvslt", OpSle: "bvsle",
	OpNot: "not", OpBAnd: "and", OpBOr: "or", OpIte: "ite", OpSelect: "select", OpStore: "store", OpArrCopy: "arrcopy",
}

// Sort encoding in Term.w: w>0 bit-vector of that width; 0 Bool;
// negative: array, -(idx*1000+elem) with elem 0 = Bool elements.
func ArrSort(idx, elem int) int { return -(idx*1000 + elem) }
func arrIdx(w int) int          { return (-w) / 1000 }
func arrElem(w int) int         { return (-w) % 1000 }

func sortStr(w int) string {
	switch {
	case w > 0:
		return fmt.Sprintf("(_ BitVec %d)", w)
	case w == 0:
		return "Bool"
	default:
		return fmt.Sprintf("(Array (_ BitVec %d) %s)", arrIdx(w), sortStr(arrElem(w)))
	}
}

type Term struct {
	op     Op
	w      int
	val    uint64
	name   string
	a      []*Term
	p1, p2 int
	id     int
}

func (t *Term) IsConst() bool { return t.op == OpConst }
func (t *Term) IsTrue() bool  { return t.op == OpConst && t.w == 0 && t.val == 1 }
func (t *Term) IsFalse() bool { return t.op == OpConst && t.w == 0 && t.val == 0 }

type auditEntry struct{ raw, res *Term }

type Store struct {
	tab   map[string]*Term
	next  int
	audit bool
	log   []auditEntry
	seen  map[[2]int]bool
	flat  map[int]*flatArr
	True  *Term
	False *Term
}

func NewStore() *Store {
	s := &Store{tab: map[string]*Term{}, seen: map[[2]int]bool{}}
	s.True = s.raw(OpConst, 0, 1, "", 0, 0)
	s.False = s.raw(OpConst, 0, 0, "", 0, 0)
	return s
}

func mask(w int) uint64 {
	if w >= 64 {
		return ^uint64(0)
	}
	return (uint64(1) << uint(w)) - 1
}

func (s *Store) raw(op Op, w int, val uint64, name string, p1, p2 int, a ...*Term) *Term {
	var sb strings.Builder
	fmt.Fprintf(&sb, "%d|%d|%d|%s|%d|%d", op, w, val, name, p1, p2)
	for _, x := range a {
		fmt.Fprintf(&sb, "|%d", x.id)
	}
	k := sb.String()
	if t, ok := s.tab[k]; ok {
		return t
	}
	t := &Term{op: op, w: w, val: val, name: name, p1: p1, p2: p2, id: s.next}
	if len(a) > 0 {
		t.a = append([]*Term(nil), a...)
	}
	s.next++
	s.tab[k] = t
	return t
}

// rw records a rewrite for the simplifier audit.
func (s *Store) rw(res *Term, op Op, w int, p1, p2 int, a ...*Term) *Term {
	if s.audit {
		r := s.raw(op, w, 0, "", p1, p2, a...)
		if r != res {
			k := [2]int{r.id, res.id}
			if !s.seen[k] {
				s.seen[k] = true
				s.log = append(s.log, auditEntry{r, res})
			}
		}
	}
	return res
}

func (s *Store) Const(w int, v uint64) *Term {
	if w == 0 {
		if v != 0 {
			return s.True
		}
		return s.False
	}
	return s.raw(OpConst, w, v&mask(w), "", 0, 0)
}
func (s *Store) Bool(b bool) *Term {
	if b {
		return s.True
	}
	return s.False
}
func (s *Store) Var(name string, w int) *Term { return s.raw(OpVar, w, 0, name, 0, 0) }
func (s *Store) ConstArr(sortw int, v uint64) *Term {
	return s.raw(OpConstArr, sortw, v, "", 0, 0)
}

func sx(v uint64, w int) int64 {
	if w >= 64 {
		return int64(v)
	}
	if v&(1<<uint(w-1)) != 0 {
		return int64(v | ^mask(w))
	}
	return int64(v)
}

// baseOff splits t into (base, constant offset); base may be nil for constants.
func baseOff(t *Term) (*Term, uint64) {
	if t.op == OpConst {
		return nil, t.val
	}
	if t.op == OpAdd && t.a[1].op == OpConst {
		return t.a[0], t.a[1].val
	}
	return t, 0
}

const (
	eqUnknown = iota
	eqSame
	eqDiff
)

func eqKnown(a, b *Term) int {
	if a == b {
		return eqSame
	}
	ba, oa := baseOff(a)
	bb, ob := baseOff(b)
	if ba == bb {
		if (oa-ob)&mask(a.w) == 0 {
			return eqSame
		}
		return eqDiff
	}
	// zext(x) vs zext(y) of same inner width
	if a.op == OpZext && b.op == OpZext && a.a[0].w == b.a[0].w {
		return eqKnown(a.a[0], b.a[0])
	}
	if a.op == OpZext && b.op == OpConst {
		if b.val > mask(a.a[0].w) {
			return eqDiff
		}
		return eqKnown(a.a[0], &Term{op: OpConst, w: a.a[0].w, val: b.val, id: -1})
	}
	if b.op == OpZext && a.op == OpConst {
		return eqKnown(b, a)
	}
	return eqUnknown
}

func (s *Store) Bin(op Op, a, b *Term) *Term {
	w := a.w
	if a.w != b.w {
		panic(fmt.Sprintf("width mismatch %s: %d vs %d", opNames[op], a.w, b.w))
	}
	if a.op == OpConst && b.op == OpConst {
		if v, ok := foldBin(op, a.val, b.val, w); ok {
			return s.rw(s.Const(w, v), op, w, 0, 0, a, b)
		}
	}
	m := mask(w)
	// strength reduction towards the forms the concat/extract rules know:
	// x*2^k = x<<k, x/2^k = x>>k, x%2^k = x&(2^k-1); a+b = a|b when no bit can be set in both
	if b.op == OpConst && b.val != 0 && b.val&(b.val-1) == 0 {
		k := uint64(0)
		for v := b.val; v > 1; v >>= 1 {
			k++
		}
		switch op {
		case OpMul:
			return s.rw(s.Bin(OpShl, a, s.Const(w, k)), op, w, 0, 0, a, b)
		case OpUdiv:
			return s.rw(s.Bin(OpLshr, a, s.Const(w, k)), op, w, 0, 0, a, b)
		case OpUrem:
			return s.rw(s.Bin(OpAnd, a, s.Const(w, b.val-1)), op, w, 0, 0, a, b)
		}
	}
	if op == OpMul && a.op == OpConst && a.val != 0 && a.val&(a.val-1) == 0 {
		return s.rw(s.Bin(OpMul, b, a), op, w, 0, 0, a, b)
	}
	if op == OpAdd && a.op != OpConst && b.op != OpConst && w > 1 {
		if maxBits(b) <= lowZeros(a) || maxBits(a) <= lowZeros(b) {
			return s.rw(s.Bin(OpOr, a, b), op, w, 0, 0, a, b)
		}
	}
	switch op {
	case OpAdd:
		if a.op == OpConst {
			a, b = b, a
		}
		if b.op == OpConst {
			if b.val == 0 {
				return s.rw(a, op, w, 0, 0, a, b)
			}
			if a.op == OpAdd && a.a[1].op == OpConst {
				return s.rw(s.Bin(OpAdd, a.a[0], s.Const(w, a.a[1].val+b.val)), op, w, 0, 0, a, b)
			}
		}
	case OpSub:
		if b.op == OpConst {
			return s.rw(s.Bin(OpAdd, a, s.Const(w, -b.val)), op, w, 0, 0, a, b)
		}
		if a == b {
			return s.rw(s.Const(w, 0), op, w, 0, 0, a, b)
		}
		if ba, oa := baseOff(a); ba != nil {
			if bb, ob := baseOff(b); bb == ba {
				return s.rw(s.Const(w, oa-ob), op, w, 0, 0, a, b)
			}
		}
	case OpAnd:
		if a.op == OpConst {
			a, b = b, a
		}
		if b.op == OpConst {
			if b.val == 0 {
				return s.rw(b, op, w, 0, 0, a, b)
			}
			if b.val == m {
				return s.rw(a, op, w, 0, 0, a, b)
			}
			if a.op == OpAnd && a.a[1].op == OpConst {
				return s.rw(s.Bin(OpAnd, a.a[0], s.Const(w, a.a[1].val&b.val)), op, w, 0, 0, a, b)
			}
		}
		if a == b {
			return s.rw(a, op, w, 0, 0, a, b)
		}
	case OpOr:
		if r := s.orConcat(a, b); r != nil {
			return s.rw(r, op, w, 0, 0, a, b)
		}
		if r := s.orConcat(b, a); r != nil {
			return s.rw(r, op, w, 0, 0, a, b)
		}
		if a.op == OpConst {
			a, b = b, a
		}
		if b.op == OpConst {
			if b.val == 0 {
				return s.rw(a, op, w, 0, 0, a, b)
			}
			if b.val == m {
				return s.rw(b, op, w, 0, 0, a, b)
			}
		}
		if a == b {
			return s.rw(a, op, w, 0, 0, a, b)
		}
	case OpXor:
		if a.op == OpConst {
			a, b = b, a
		}
		if b.op == OpConst && b.val == 0 {
			return s.rw(a, op, w, 0, 0, a, b)
		}
		if a == b {
			return s.rw(s.Const(w, 0), op, w, 0, 0, a, b)
		}
	case OpShl, OpLshr:
		if b.op == OpConst {
			if b.val == 0 {
				return s.rw(a, op, w, 0, 0, a, b)
			}
			if b.val >= uint64(w) {
				return s.rw(s.Const(w, 0), op, w, 0, 0, a, b)
			}
		}
	case OpAshr:
		if b.op == OpConst && b.val == 0 {
			return s.rw(a, op, w, 0, 0, a, b)
		}
	case OpMul:
		if a.op == OpConst {
			a, b = b, a
		}
		if b.op == OpConst {
			if b.val == 0 {
				return s.rw(b, op, w, 0, 0, a, b)
			}
			if b.val == 1 {
				return s.rw(a, op, w, 0, 0, a, b)
			}
		}
	}
	return s.raw(op, w, 0, "", 0, 0, a, b)
}

// orConcat recognises (zext(h) << c) | zext(l) with l no wider than c and
// h filling the rest: the Go idiom uint16(h)<<8 | uint16(l).
func (s *Store) orConcat(a, b *Term) *Term {
	if a.op != OpShl || a.a[1].op != OpConst || a.a[0].op != OpZext {
		return nil
	}
	c := int(a.a[1].val)
	h := a.a[0].a[0]
	if h.w+c != a.w {
		return nil
	}
	var l *Term
	switch {
	case b.op == OpZext && b.a[0].w <= c:
		l = s.Zext(c, b.a[0])
	case b.op == OpConst && b.val <= mask(c):
		l = s.Const(c, b.val)
	default:
		return nil
	}
	return s.Concat(h, l)
}

func foldBin(op Op, x, y uint64, w int) (uint64, bool) {
	m := mask(w)
	switch op {
	case OpAdd:
		return (x + y) & m, true
	case OpSub:
		return (x - y) & m, true
	case OpMul:
		return (x * y) & m, true
	case OpAnd:
		return x & y, true
	case OpOr:
		return x | y, true
	case OpXor:
		return x ^ y, true
	case OpShl:
		if y >= uint64(w) {
			return 0, true
		}
		return (x << y) & m, true
	case OpLshr:
		if y >= uint64(w) {
			return 0, true
		}
		return x >> y, true
	case OpAshr:
		sv := sx(x, w)
		if y >= uint64(w) {
			y = uint64(w - 1)
		}
		return uint64(sv>>y) & m, true
	case OpUdiv:
		if y == 0 {
			return m, true
		}
		return x / y, true
	case OpUrem:
		if y == 0 {
			return x, true
		}
		return x % y, true
	case OpSdiv:
		if y == 0 {
			return 0, false
		}
		a, b := sx(x, w), sx(y, w)
		if b == -1 {
			return uint64(-a) & m, true
		}
		return uint64(a/b) & m, true
	case OpSrem:
		if y == 0 {
			return 0, false
		}
		a, b := sx(x, w), sx(y, w)
		if b == -1 {
			return 0, true
		}
		return uint64(a%b) & m, true
	}
	return 0, false
}

func (s *Store) BvNot(a *Term) *Term {
	if a.op == OpConst {
		return s.rw(s.Const(a.w, ^a.val), OpBvNot, a.w, 0, 0, a)
	}
	if a.op == OpBvNot {
		return s.rw(a.a[0], OpBvNot, a.w, 0, 0, a)
	}
	return s.raw(OpBvNot, a.w, 0, "", 0, 0, a)
}

func (s *Store) Neg(a *Term) *Term {
	if a.op == OpConst {
		return s.rw(s.Const(a.w, -a.val), OpNeg, a.w, 0, 0, a)
	}
	return s.raw(OpNeg, a.w, 0, "", 0, 0, a)
}

func (s *Store) Extract(hi, lo int, a *Term) *Term {
	w := hi - lo + 1
	if lo == 0 && w == a.w {
		return a
	}
	switch a.op {
	case OpConst:
		return s.rw(s.Const(w, a.val>>uint(lo)), OpExtract, w, hi, lo, a)
	case OpZext:
		iw := a.a[0].w
		if hi < iw {
			return s.rw(s.Extract(hi, lo, a.a[0]), OpExtract, w, hi, lo, a)
		}
		if lo >= iw {
			return s.rw(s.Const(w, 0), OpExtract, w, hi, lo, a)
		}
		if lo == 0 {
			return s.rw(s.Zext(w, a.a[0]), OpExtract, w, hi, lo, a)
		}
	case OpSext:
		iw := a.a[0].w
		if hi < iw {
			return s.rw(s.Extract(hi, lo, a.a[0]), OpExtract, w, hi, lo, a)
		}
		if lo == 0 {
			return s.rw(s.Sext(w, a.a[0]), OpExtract, w, hi, lo, a)
		}
	case OpConcat:
		lw := a.a[1].w
		if hi < lw {
			return s.rw(s.Extract(hi, lo, a.a[1]), OpExtract, w, hi, lo, a)
		}
		if lo >= lw {
			return s.rw(s.Extract(hi-lw, lo-lw, a.a[0]), OpExtract, w, hi, lo, a)
		}
	case OpExtract:
		return s.rw(s.Extract(hi+a.p2, lo+a.p2, a.a[0]), OpExtract, w, hi, lo, a)
	case OpLshr:
		if a.a[1].op == OpConst && hi+int(a.a[1].val) < a.w {
			c := int(a.a[1].val)
			return s.rw(s.Extract(hi+c, lo+c, a.a[0]), OpExtract, w, hi, lo, a)
		}
	case OpShl:
		if a.a[1].op == OpConst && lo >= int(a.a[1].val) {
			c := int(a.a[1].val)
			return s.rw(s.Extract(hi-c, lo-c, a.a[0]), OpExtract, w, hi, lo, a)
		}
	case OpAnd, OpOr, OpXor:
		// push a low extract through bitwise ops with a constant side
		if a.a[1].op == OpConst {
			return s.rw(s.Bin(a.op, s.Extract(hi, lo, a.a[0]), s.Const(w, a.a[1].val>>uint(lo))), OpExtract, w, hi, lo, a)
		}
	case OpAdd:
		if lo == 0 && a.a[1].op == OpConst && (a.a[0].op == OpZext || a.a[0].op == OpSext) && a.a[0].a[0].w <= w {
			// low part of (ext(x)+c) = ext'(x)+c'
			in := a.a[0]
			var x *Term
			if in.op == OpZext {
				x = s.Zext(w, in.a[0])
			} else {
				x = s.Sext(w, in.a[0])
			}
			return s.rw(s.Bin(OpAdd, x, s.Const(w, a.a[1].val)), OpExtract, w, hi, lo, a)
		}
	}
	return s.raw(OpExtract, w, 0, "", hi, lo, a)
}

func (s *Store) Zext(w int, a *Term) *Term {
	if w == a.w {
		return a
	}
	if w < a.w {
		return s.Extract(w-1, 0, a)
	}
	if a.op == OpConst {
		return s.rw(s.Const(w, a.val), OpZext, w, 0, 0, a)
	}
	if a.op == OpZext {
		return s.rw(s.Zext(w, a.a[0]), OpZext, w, 0, 0, a)
	}
	return s.raw(OpZext, w, 0, "", 0, 0, a)
}

func (s *Store) Sext(w int, a *Term) *Term {
	if w == a.w {
		return a
	}
	if w < a.w {
		return s.Extract(w-1, 0, a)
	}
	if a.op == OpConst {
		return s.rw(s.Const(w, uint64(sx(a.val, a.w))), OpSext, w, 0, 0, a)
	}
	if a.op == OpSext {
		return s.rw(s.Sext(w, a.a[0]), OpSext, w, 0, 0, a)
	}
	if a.op == OpZext {
		return s.rw(s.Zext(w, a.a[0]), OpSext, w, 0, 0, a)
	}
	return s.raw(OpSext, w, 0, "", 0, 0, a)
}

func (s *Store) Concat(hi, lo *Term) *Term {
	w := hi.w + lo.w
	if hi.op == OpConst && lo.op == OpConst {
		return s.rw(s.Const(w, hi.val<<uint(lo.w)|lo.val), OpConcat, w, 0, 0, hi, lo)
	}
	if hi.op == OpExtract && lo.op == OpExtract && hi.a[0] == lo.a[0] && hi.p2 == lo.p1+1 {
		return s.rw(s.Extract(hi.p1, lo.p2, hi.a[0]), OpConcat, w, 0, 0, hi, lo)
	}
	if hi.op == OpConst && hi.val == 0 {
		return s.rw(s.Zext(w, lo), OpConcat, w, 0, 0, hi, lo)
	}
	return s.raw(OpConcat, w, 0, "", 0, 0, hi, lo)
}

func (s *Store) Eq(a, b *Term) *Term {
	if a.w != b.w {
		panic(fmt.Sprintf("eq sort mismatch %d vs %d", a.w, b.w))
	}
	if a.w == 0 {
		// boolean equality
		if a == b {
			return s.rw(s.True, OpEq, 0, 0, 0, a, b)
		}
		if a.op == OpConst {
			a, b = b, a
		}
		if b.op == OpConst {
			if b.val == 1 {
				return s.rw(a, OpEq, 0, 0, 0, a, b)
			}
			return s.rw(s.Not(a), OpEq, 0, 0, 0, a, b)
		}
		return s.raw(OpEq, 0, 0, "", 0, 0, a, b)
	}
	if a.w > 0 {
		switch eqKnown(a, b) {
		case eqSame:
			return s.rw(s.True, OpEq, 0, 0, 0, a, b)
		case eqDiff:
			return s.rw(s.False, OpEq, 0, 0, 0, a, b)
		}
		if a.op == OpConst {
			a, b = b, a
		}
		if b.op == OpConst {
			// ite(c,k1,k2) == k
			if a.op == OpIte && a.a[1].op == OpConst && a.a[2].op == OpConst {
				t := a.a[1].val == b.val
				e := a.a[2].val == b.val
				var r *Term
				switch {
				case t && e:
					r = s.True
				case t && !e:
					r = a.a[0]
				case !t && e:
					r = s.Not(a.a[0])
				default:
					r = s.False
				}
				return s.rw(r, OpEq, 0, 0, 0, a, b)
			}
		}
	} else if a == b {
		return s.True
	}
	if a.id > b.id && b.op != OpConst {
		a, b = b, a
	}
	return s.raw(OpEq, 0, 0, "", 0, 0, a, b)
}

func (s *Store) Cmp(op Op, a, b *Term) *Term {
	if a.w != b.w {
		panic("cmp width mismatch")
	}
	if a.op == OpConst && b.op == OpConst {
		var r bool
		switch op {
		case OpUlt:
			r = a.val < b.val
		case OpUle:
			r = a.val <= b.val
		case OpSlt:
			r = sx(a.val, a.w) < sx(b.val, b.w)
		case OpSle:
			r = sx(a.val, a.w) <= sx(b.val, b.w)
		}
		return s.rw(s.Bool(r), op, 0, 0, 0, a, b)
	}
	if a == b {
		return s.rw(s.Bool(op == OpUle || op == OpSle), op, 0, 0, 0, a, b)
	}
	if op == OpUlt && b.op == OpConst && b.val == 0 {
		return s.rw(s.False, op, 0, 0, 0, a, b)
	}
	if op == OpUle && a.op == OpConst && a.val == 0 {
		return s.rw(s.True, op, 0, 0, 0, a, b)
	}
	// zext(x) <u const beyond range
	if (op == OpUlt || op == OpUle) && a.op == OpZext && b.op == OpConst && b.val > mask(a.a[0].w) {
		return s.rw(s.True, op, 0, 0, 0, a, b)
	}
	return s.raw(op, 0, 0, "", 0, 0, a, b)
}

func (s *Store) Not(a *Term) *Term {
	if a.op == OpConst {
		return s.rw(s.Bool(a.val == 0), OpNot, 0, 0, 0, a)
	}
	if a.op == OpNot {
		return s.rw(a.a[0], OpNot, 0, 0, 0, a)
	}
	return s.raw(OpNot, 0, 0, "", 0, 0, a)
}

func (s *Store) And(a, b *Term) *Term {
	if a.IsFalse() || b.IsFalse() {
		return s.rw(s.False, OpBAnd, 0, 0, 0, a, b)
	}
	if a.IsTrue() {
		return s.rw(b, OpBAnd, 0, 0, 0, a, b)
	}
	if b.IsTrue() || a == b {
		return s.rw(a, OpBAnd, 0, 0, 0, a, b)
	}
	return s.raw(OpBAnd, 0, 0, "", 0, 0, a, b)
}

func (s *Store) Or(a, b *Term) *Term {
	if a.IsTrue() || b.IsTrue() {
		return s.rw(s.True, OpBOr, 0, 0, 0, a, b)
	}
	if a.IsFalse() {
		return s.rw(b, OpBOr, 0, 0, 0, a, b)
	}
	if b.IsFalse() || a == b {
		return s.rw(a, OpBOr, 0, 0, 0, a, b)
	}
	return s.raw(OpBOr, 0, 0, "", 0, 0, a, b)
}

func (s *Store) AndN(ts []*Term) *Term {
	r := s.True
	for _, t := range ts {
		r = s.And(r, t)
	}
	return r
}

func (s *Store) Ite(c, a, b *Term) *Term {
	if a.w != b.w {
		panic("ite sort mismatch")
	}
	if c.IsTrue() {
		return s.rw(a, OpIte, a.w, 0, 0, c, a, b)
	}
	if c.IsFalse() {
		return s.rw(b, OpIte, a.w, 0, 0, c, a, b)
	}
	if a == b {
		return s.rw(a, OpIte, a.w, 0, 0, c, a, b)
	}
	if a.w == 0 {
		if a.IsTrue() && b.IsFalse() {
			return s.rw(c, OpIte, 0, 0, 0, c, a, b)
		}
		if a.IsFalse() && b.IsTrue() {
			return s.rw(s.Not(c), OpIte, 0, 0, 0, c, a, b)
		}
	}
	return s.raw(OpIte, a.w, 0, "", 0, 0, c, a, b)
}

func (s *Store) Select(arr, idx *Term) *Term {
	ew := arrElem(arr.w)
	if arrIdx(arr.w) != idx.w {
		panic(fmt.Sprintf("select index width %d on %s", idx.w, sortStr(arr.w)))
	}
	if idx.op == OpConst && arr.op == OpStore {
		if v, ok := s.flatSelect(arr, idx.val); ok {
			return v // ground lookup in a long constant table: not a rewrite worth auditing
		}
	}
	if idx.op != OpConst && arr.op == OpStore {
		if v := s.muxSelect(arr, idx); v != nil {
			return v
		}
	}
	cur := arr
	for {
		switch cur.op {
		case OpStore:
			switch eqKnown(cur.a[1], idx) {
			case eqSame:
				return s.rw(cur.a[2], OpSelect, ew, 0, 0, arr, idx)
			case eqDiff:
				cur = cur.a[0]
				continue
			}
		case OpConstArr:
			return s.rw(s.Const(ew, cur.val), OpSelect, ew, 0, 0, arr, idx)
		case OpArrCopy:
			// element idx of a block copy: inside the block it comes from src
			rel := s.Bin(OpSub, idx, cur.a[2])
			in := s.Cmp(OpUlt, rel, cur.a[4])
			if in.IsFalse() {
				cur = cur.a[0]
				continue
			}
			from := s.Select(cur.a[1], s.Bin(OpAdd, cur.a[3], rel))
			if in.IsTrue() {
				return s.rw(from, OpSelect, ew, 0, 0, arr, idx)
			}
			return s.rw(s.Ite(in, from, s.Select(cur.a[0], idx)), OpSelect, ew, 0, 0, arr, idx)
		}
		break
	}
	if cur != arr {
		return s.rw(s.raw(OpSelect, ew, 0, "", 0, 0, cur, idx), OpSelect, ew, 0, 0, arr, idx)
	}
	return s.raw(OpSelect, ew, 0, "", 0, 0, arr, idx)
}

// flatSelect answers a constant-index select on a store chain whose indices
// are all constants from a per-array cache (long ground arrays: file images,
// initialised tables).
func (s *Store) flatSelect(arr *Term, idx uint64) (*Term, bool) {
	if s.flat == nil {
		s.flat = map[int]*flatArr{}
	}
	fa, ok := s.flat[arr.id]
	if !ok {
		// only worth it for long chains
		n := 0
		cur := arr
		for cur.op == OpStore && cur.a[1].op == OpConst {
			n++
			cur = cur.a[0]
		}
		if n < 64 || (cur.op != OpConstArr && cur.op != OpVar) {
			s.flat[arr.id] = nil
			return nil, false
		}
		fa = &flatArr{m: make(map[uint64]*Term, n), base: cur}
		cur = arr
		for cur.op == OpStore {
			k := cur.a[1].val
			if _, seen := fa.m[k]; !seen {
				fa.m[k] = cur.a[2]
			}
			cur = cur.a[0]
		}
		s.flat[arr.id] = fa
	}
	if fa == nil {
		return nil, false
	}
	if v, ok := fa.m[idx]; ok {
		return v, true
	}
	if fa.base.op == OpConstArr {
		return s.Const(arrElem(arr.w), fa.base.val), true
	}
	return nil, false
}

type flatArr struct {
	m    map[uint64]*Term
	base *Term
}

// muxSelect: a symbolic-index read of a ground lookup table (>= 64 stores at
// constant indices over a constant array) whose index provably fits in k <= 12
// bits becomes a balanced multiplexer tree over those k index bits - the same
// function, correct by construction from the table, and far easier for a
// bit-blasting solver than a select over a chain of hundreds of stores.
func (s *Store) muxSelect(arr, idx *Term) *Term {
	k := maxBits(idx)
	if k > 12 || k == 0 {
		return nil
	}
	s.flatSelect(arr, 0) // builds the cache if the chain qualifies
	fa := s.flat[arr.id]
	if fa == nil || fa.base.op != OpConstArr {
		return nil
	}
	ew := arrElem(arr.w)
	def := s.Const(ew, fa.base.val)
	bit := make([]*Term, k)
	for i := 0; i < k; i++ {
		bit[i] = s.Eq(s.Extract(i, i, idx), s.Const(1, 1))
	}
	var rec func(pos int, prefix uint64) *Term
	rec = func(pos int, prefix uint64) *Term {
		if pos < 0 {
			if v, ok := fa.m[prefix]; ok {
				return v
			}
			return def
		}
		hi := rec(pos-1, prefix|1<<uint(pos))
		lo := rec(pos-1, prefix)
		if hi == lo {
			return hi
		}
		return s.Ite(bit[pos], hi, lo)
	}
	return rec(k-1, 0)
}

// lowZeros: a lower bound on the number of low bits of t that are zero.
func lowZeros(t *Term) int {
	var rec func(t *Term, d int) int
	rec = func(t *Term, d int) int {
		if t.w <= 0 || d > 24 {
			return 0
		}
		min := func(a, b int) int {
			if a < b {
				return a
			}
			return b
		}
		switch t.op {
		case OpConst:
			if t.val == 0 {
				return t.w
			}
			n := 0
			for v := t.val; v&1 == 0; v >>= 1 {
				n++
			}
			return n
		case OpShl:
			if t.a[1].op == OpConst && t.a[1].val < 64 {
				return min(t.w, rec(t.a[0], d+1)+int(t.a[1].val))
			}
		case OpZext:
			if z := rec(t.a[0], d+1); z < t.a[0].w {
				return z
			}
			return t.w
		case OpAnd:
			a, b := rec(t.a[0], d+1), rec(t.a[1], d+1)
			if a > b {
				return a
			}
			return b
		case OpOr, OpXor, OpAdd:
			return min(rec(t.a[0], d+1), rec(t.a[1], d+1))
		case OpIte:
			return min(rec(t.a[1], d+1), rec(t.a[2], d+1))
		case OpConcat:
			if z := rec(t.a[1], d+1); z < t.a[1].w {
				return z
			}
			return t.a[1].w + rec(t.a[0], d+1)
		}
		return 0
	}
	return rec(t, 0)
}

// maxBits: an upper bound on the number of low bits of t that can be non-zero.
func maxBits(t *Term) int {
	var rec func(t *Term, d int) int
	rec = func(t *Term, d int) int {
		w := t.w
		if w <= 0 {
			return 64
		}
		if d > 24 {
			return w
		}
		min := func(a, b int) int {
			if a < b {
				return a
			}
			return b
		}
		max := func(a, b int) int {
			if a > b {
				return a
			}
			return b
		}
		switch t.op {
		case OpConst:
			n := 0
			for v := t.val; v != 0; v >>= 1 {
				n++
			}
			return min(n, w)
		case OpZext:
			return min(rec(t.a[0], d+1), t.a[0].w)
		case OpAnd:
			return min(rec(t.a[0], d+1), rec(t.a[1], d+1))
		case OpOr, OpXor:
			return max(rec(t.a[0], d+1), rec(t.a[1], d+1))
		case OpAdd:
			return min(w, max(rec(t.a[0], d+1), rec(t.a[1], d+1))+1)
		case OpShl:
			if t.a[1].op == OpConst && t.a[1].val < 64 {
				return min(w, rec(t.a[0], d+1)+int(t.a[1].val))
			}
		case OpLshr:
			if t.a[1].op == OpConst && t.a[1].val < 64 {
				return max(0, rec(t.a[0], d+1)-int(t.a[1].val))
			}
		case OpIte:
			return max(rec(t.a[1], d+1), rec(t.a[2], d+1))
		case OpExtract:
			return min(t.p1-t.p2+1, max(0, rec(t.a[0], d+1)-t.p2))
		case OpConcat:
			hi := rec(t.a[0], d+1)
			if hi == 0 {
				return rec(t.a[1], d+1)
			}
			return min(w, hi+t.a[1].w)
		}
		return w
	}
	return rec(t, 0)
}

// ArrCopy: the array dst with n elements of src, starting at soff, copied to
// doff (memmove semantics are the caller's business: src is a value).  Only
// ever observed through Select, which pushes through it; printed as a lambda
// if an array term containing it has to reach the solver.
func (s *Store) ArrCopy(dst, src, doff, soff, n *Term) *Term {
	if n.op == OpConst && n.val == 0 {
		return dst
	}
	return s.raw(OpArrCopy, dst.w, 0, "", 0, 0, dst, src, doff, soff, n)
}

func (s *Store) StoreArr(arr, idx, v *Term) *Term {
	if arrIdx(arr.w) != idx.w || arrElem(arr.w) != v.w {
		panic(fmt.Sprintf("store sort mismatch %s [%d] <- %d", sortStr(arr.w), idx.w, v.w))
	}
	if arr.op == OpStore && eqKnown(arr.a[1], idx) == eqSame {
		return s.rw(s.StoreArr(arr.a[0], idx, v), OpStore, arr.w, 0, 0, arr, idx, v)
	}
	return s.raw(OpStore, arr.w, 0, "", 0, 0, arr, idx, v)
}

// ---------------------------------------------------------------------------
// SMT-LIB printing

func constStr(t *Term) string {
	if t.w == 0 {
		if t.val != 0 {
			return "true"
		}
		return "false"
	}
	if t.w%4 == 0 {
		return fmt.Sprintf("#x%0*x", t.w/4, t.val)
	}
	return fmt.Sprintf("#b%0*b", t.w, t.val)
}

func smtName(n string) string {
	return "|" + strings.ReplaceAll(n, "|", "!") + "|"
}

// emit writes declarations and definitions for all nodes reachable from roots
// and returns the names of the roots.  done carries what was already emitted.
func emit(sb *strings.Builder, done map[int]string, roots ...*Term) []string {
	var visit func(t *Term) string
	visit = func(t *Term) string {
		if n, ok := done[t.id]; ok {
			return n
		}
		var n string
		switch t.op {
		case OpConst:
			n = constStr(t)
		case OpVar:
			n = smtName(t.name)
			fmt.Fprintf(sb, "(declare-const %s %s)\n", n, sortStr(t.w))
		case OpConstArr:
			n = fmt.Sprintf("((as const %s) %s)", sortStr(t.w), constStr(&Term{w: arrElem(t.w), val: t.val}))
		default:
			args := make([]string, len(t.a))
			for i, x := range t.a {
				args[i] = visit(x)
			}
			var body string
			switch t.op {
			case OpExtract:
				body = fmt.Sprintf("((_ extract %d %d) %s)", t.p1, t.p2, args[0])
			case OpZext:
				body = fmt.Sprintf("((_ zero_extend %d) %s)", t.w-t.a[0].w, args[0])
			case OpSext:
				body = fmt.Sprintf("((_ sign_extend %d) %s)", t.w-t.a[0].w, args[0])
			case OpArrCopy:
				k := fmt.Sprintf("k!%d", t.id)
				rel := fmt.Sprintf("(bvsub %s %s)", k, args[2])
				body = fmt.Sprintf("(lambda ((%s (_ BitVec %d))) (ite (bvult %s %s) (select %s (bvadd %s %s)) (select %s %s)))",
					k, arrIdx(t.w), rel, args[4], args[1], args[3], rel, args[0], k)
			default:
				body = "(" + opNames[t.op] + " " + strings.Join(args, " ") + ")"
			}
			n = fmt.Sprintf("n%d", t.id)
			fmt.Fprintf(sb, "(define-fun %s () %s %s)\n", n, sortStr(t.w), body)
		}
		done[t.id] = n
		return n
	}
	out := make([]string, len(roots))
	for i, r := range roots {
		out[i] = visit(r)
	}
	return out
}

// String renders a term (shared nodes expanded) for evidence samples; capped.
func (t *Term) String() string {
	var sb strings.Builder
	var rec func(t *Term, d int)
	rec = func(t *Term, d int) {
		if sb.Len() > 600 {
			sb.WriteString("…")
			return
		}
		switch t.op {
		case OpConst:
			sb.WriteString(constStr(t))
		case OpVar:
			sb.WriteString(t.name)
		case OpConstArr:
			fmt.Fprintf(&sb, "const[%d]", t.val)
		default:
			if d > 12 {
				sb.WriteString("…")
				return
			}
			sb.WriteString("(")
			switch t.op {
			case OpExtract:
				fmt.Fprintf(&sb, "extract[%d:%d]", t.p1, t.p2)
			case OpZext:
				fmt.Fprintf(&sb, "zext%d", t.w)
			case OpSext:
				fmt.Fprintf(&sb, "sext%d", t.w)
			default:
				sb.WriteString(opNames[t.op])
			}
			for _, x := range t.a {
				sb.WriteString(" ")
				rec(x, d+1)
			}
			sb.WriteString(")")
		}
	}
	rec(t, 0)
	return sb.String()
}

// freeVars returns the sorted names of variables occurring in t.
func freeVars(ts ...*Term) []string {
	seen := map[int]bool{}
	names := map[string]bool{}
	var rec func(t *Term)
	rec = func(t *Term) {
		if seen[t.id] {
			return
		}
		seen[t.id] = true
		if t.op == OpVar {
			names[t.name] = true
		}
		for _, x := range t.a {
			rec(x)
		}
	}
	for _, t := range ts {
		rec(t)
	}
	out := make([]string, 0, len(names))
	for n := range names {
		out = append(out, n)
	}
	sort.Strings(out)
	return out
}

func collectVars(ts ...*Term) []*Term {
	seen := map[int]bool{}
	var out []*Term
	var rec func(t *Term)
	rec = func(t *Term) {
		if seen[t.id] {
			return
		}
		seen[t.id] = true
		if t.op == OpVar {
			out = append(out, t)
		}
		for _, x := range t.a {
			rec(x)
		}
	}
	for _, t := range ts {
		rec(t)
	}
	return out
}

// evalTerm evaluates t under a concrete assignment (vars by name; arrays as
// maps with a default).  Used for translator validation and model checking.
type arrVal struct {
	def uint64
	m   map[uint64]uint64
}

type Assign struct {
	bv  map[string]uint64
	arr map[string]*arrVal
}

func evalTerm(t *Term, as *Assign, memo map[int]interface{}) interface{} {
	if v, ok := memo[t.id]; ok {
		return v
	}
	var r interface{}
	ev := func(i int) uint64 { return evalTerm(t.a[i], as, memo).(uint64) }
	switch t.op {
	case OpConst:
		r = t.val
	case OpVar:
		if t.w < 0 {
			a := as.arr[t.name]
			if a == nil {
				a = &arrVal{m: map[uint64]uint64{}}
			}
			r = a
		} else {
			r = as.bv[t.name] & mask(max(t.w, 1))
		}
	case OpConstArr:
		r = &arrVal{def: t.val, m: map[uint64]uint64{}}
	case OpAdd, OpSub, OpMul, OpUdiv, OpUrem, OpSdiv, OpSrem, OpAnd, OpOr, OpXor, OpShl, OpLshr, OpAshr:
		v, _ := foldBin(t.op, ev(0), ev(1), t.w)
		r = v
	case OpBvNot:
		r = ^ev(0) & mask(t.w)
	case OpNeg:
		r = -ev(0) & mask(t.w)
	case OpConcat:
		r = ev(0)<<uint(t.a[1].w) | ev(1)
	case OpExtract:
		r = (ev(0) >> uint(t.p2)) & mask(t.w)
	case OpZext:
		r = ev(0)
	case OpSext:
		r = uint64(sx(ev(0), t.a[0].w)) & mask(t.w)
	case OpEq:
		if t.a[0].w < 0 {
			panic("array equality in evalTerm")
		}
		r = b2u(ev(0) == ev(1))
	case OpUlt:
		r = b2u(ev(0) < ev(1))
	case OpUle:
		r = b2u(ev(0) <= ev(1))
	case OpSlt:
		r = b2u(sx(ev(0), t.a[0].w) < sx(ev(1), t.a[0].w))
	case OpSle:
		r = b2u(sx(ev(0), t.a[0].w) <= sx(ev(1), t.a[0].w))
	case OpNot:
		r = 1 - ev(0)
	case OpBAnd:
		r = ev(0) & ev(1)
	case OpBOr:
		r = ev(0) | ev(1)
	case OpIte:
		if ev(0) != 0 {
			r = evalTerm(t.a[1], as, memo)
		} else {
			r = evalTerm(t.a[2], as, memo)
		}
	case OpSelect:
		a := evalTerm(t.a[0], as, memo).(*arrVal)
		i := ev(1)
		if v, ok := a.m[i]; ok {
			r = v
		} else {
			r = a.def
		}
	case OpStore:
		a := evalTerm(t.a[0], as, memo).(*arrVal)
		n := &arrVal{def: a.def, m: make(map[uint64]uint64, len(a.m)+1)}
		for k, v := range a.m {
			n.m[k] = v
		}
		n.m[ev(1)] = ev(2)
		r = n
	case OpArrCopy:
		d := evalTerm(t.a[0], as, memo).(*arrVal)
		src := evalTerm(t.a[1], as, memo).(*arrVal)
		doff, soff, cnt := ev(2), ev(3), ev(4)
		if cnt > 1<<20 {
			panic("evalTerm: arrcopy of more than 2^20 elements")
		}
		n := &arrVal{def: d.def, m: make(map[uint64]uint64, len(d.m)+int(cnt))}
		for k, v := range d.m {
			n.m[k] = v
		}
		for i := uint64(0); i < cnt; i++ {
			if v, ok := src.m[soff+i]; ok {
				n.m[doff+i] = v
			} else {
				n.m[doff+i] = src.def
			}
		}
		r = n
	default:
		panic("evalTerm: op")
	}
	memo[t.id] = r
	return r
}

func b2u(b bool) uint64 {
	if b {
		return 1
	}
	return 0
}
