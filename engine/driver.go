package main

// Job scheduling, obligation discharge, model extraction, native replay.

import (
	"fmt"
	"hash/fnv"
	"os"
	"path/filepath"
	"sort"
	"strings"
	"sync"
	"time"

	"golang.org/x/tools/go/ssa"
)

type Job struct {
	Dir       string
	Harness   string
	Params    []int
	Label     string            // stable obligation-name component
	Overrides map[string]string // callee full name -> harness function
	Unwind    int
	MaxForks  int
	MaxPaths  int
	Tag       string // free: used by the property post-processing
	NoPanic   bool   // do not turn implicit-panic obligations into results
	KeepPaths bool   // keep path conditions and observations (translator validation)
	ProbeHang bool   // when the exploration is cut short inside a loop, look for an input on which the real code does not return (native watchdog)
	BudgetS   int    // wall-clock budget of this job in seconds (0 = the check's budget)
	Alias     bool   // solver-backed alias resolution of memory reads (multi-Step harnesses)
}

type OblResult struct {
	Name    string
	Kind    string
	Verdict string // unsat | sat | unknown | trivial
	Ms      float64
	Detail  string
	Replay  *ReplayFile
	Hash    uint64
	NVars   int
	Text    string
}

type JobResult struct {
	Job         Job
	Paths       int
	OkPaths     int
	Infeasible  int
	PanicPaths  int
	Bounded     int
	Undecided   []string
	Obls        []OblResult
	Queries     int
	FeasQ       int
	Hangs       []*ReplayFile // natively confirmed: the harness did not return within the watchdog
	GlobalInit  map[string]bool
	GlobalAtomW map[string]bool
	GlobalAtomR map[string]bool
	SolverTime  time.Duration
	Fallbacks   map[string]int // queries of this job decided by a fallback solver
	Instrs      int
	Funcs       map[string]bool
	Witness     int
	GlobalW     map[string]bool
	GlobalR     map[string]bool
	LoopFuncs   map[string]bool
	Wall        time.Duration
	PathData    []PathResult
	RaceChecks  int
	MaxTrace    int
	Notes       []string
	Err         string
}

type Runner struct {
	L         *Loaded
	solver    string
	timeoutMs int
	workers   int
	audit     bool
	auditLog  []auditEntry
	mu        sync.Mutex
	dumpDir   string
	deadline  time.Time
	jobBudget int // default wall-clock budget per job in seconds (0 = none): on a broken tree a few exploding jobs must not starve the rest
}

func (r *Runner) RunJobs(jobs []Job) []JobResult {
	res := make([]JobResult, len(jobs))
	ch := make(chan int, len(jobs))
	for i := range jobs {
		ch <- i
	}
	close(ch)
	var wg sync.WaitGroup
	nw := r.workers
	if nw > len(jobs) {
		nw = len(jobs)
	}
	for w := 0; w < nw; w++ {
		wg.Add(1)
		go func() {
			defer wg.Done()
			sol, err := NewSolver(r.solver, r.timeoutMs)
			if err != nil {
				for i := range ch {
					res[i] = JobResult{Job: jobs[i], Err: err.Error()}
				}
				return
			}
			defer func() { sol.Close() }()
			st := NewStore()
			st.audit = r.audit
			n := 0
			for i := range ch {
				// fresh term store every so often keeps memory flat
				if n%64 == 63 && !r.audit {
					st = NewStore()
				}
				n++
				// incremental solvers grow with push/pop: restart them now and then
				if sol.Queries > 4000 {
					sol.Close()
					sol, err = NewSolver(r.solver, r.timeoutMs)
					if err != nil {
						res[i] = JobResult{Job: jobs[i], Err: err.Error()}
						continue
					}
				}
				if sol.dead {
					sol.Close()
					sol, err = NewSolver(r.solver, r.timeoutMs)
					if err != nil {
						res[i] = JobResult{Job: jobs[i], Err: err.Error()}
						continue
					}
				}
				res[i] = r.runJob(jobs[i], st, sol)
			}
			if r.audit {
				r.mu.Lock()
				r.auditLog = append(r.auditLog, st.log...)
				r.mu.Unlock()
			}
		}()
	}
	wg.Wait()
	return res
}

func (r *Runner) argsFor(e *Exec, fn *ssa.Function, params []int) []Value {
	args := make([]Value, len(params))
	for i, p := range params {
		args[i] = e.c64(int64(p))
	}
	return args
}

func (r *Runner) runJob(job Job, st *Store, sol *Solver) (jr JobResult) {
	jr.Job = job
	jr.Funcs = map[string]bool{}
	jstart := time.Now()
	defer func() { jr.Wall = time.Since(jstart) }()
	defer func() {
		if x := recover(); x != nil {
			jr.Err = fmt.Sprintf("engine panic: %v", x)
		}
	}()
	pkg := r.L.pkgs[job.Dir]
	fn := pkg.Func(job.Harness)
	if fn == nil {
		jr.Err = "harness not found: " + job.Harness
		return
	}
	if len(fn.Params) != len(job.Params) {
		jr.Err = fmt.Sprintf("harness %s wants %d params, got %d", job.Harness, len(fn.Params), len(job.Params))
		return
	}
	e := &Exec{st: st, sol: sol, prog: r.L.prog, L: r.L, overrides: job.Overrides, harnessPkg: pkg,
		funcsSeen: jr.Funcs, maxForks: 64, unwind: 70000, qcache: map[[2]int]Verdict{},
		globalW: map[string]bool{}, globalInit: map[string]bool{}, globalAtomW: map[string]bool{}, globalAtomR: map[string]bool{}, globalR: map[string]bool{}, loopFuncs: map[string]bool{}}
	e.aliasResolve = job.Alias
	e.deadline = r.deadline
	bs := job.BudgetS
	if bs == 0 {
		bs = r.jobBudget
	}
	if bs > 0 {
		if d := time.Now().Add(time.Duration(bs) * time.Second); e.deadline.IsZero() || d.Before(e.deadline) {
			e.deadline = d
		}
	}
	if !r.deadline.IsZero() && time.Now().After(r.deadline) {
		jr.Undecided = append(jr.Undecided, "time budget of the check exceeded before this job started")
		return
	}
	if job.MaxForks > 0 {
		e.maxForks = job.MaxForks
	}
	if job.Unwind > 0 {
		e.unwind = job.Unwind
	}
	maxPaths := 4096
	if job.MaxPaths > 0 {
		maxPaths = job.MaxPaths
	}
	q0, t0 := sol.Queries, sol.Time
	fb0 := map[string]int{}
	for k, v := range sol.Fallbacks {
		fb0[k] = v
	}
	var hangPCs, lastPCs []*Term
	work := [][]decision{nil}
	for len(work) > 0 {
		// shortest prefix first: when a budget cuts the exploration short, the
		// shallow alternatives (loop exits after few iterations, early returns) have been covered
		bi := len(work) - 1
		for i := range work {
			if len(work[i]) < len(work[bi]) {
				bi = i
			}
		}
		prefix := work[bi]
		work[bi] = work[len(work)-1]
		work = work[:len(work)-1]
		if jr.Paths >= maxPaths {
			jr.Undecided = append(jr.Undecided, "path bound exceeded")
			break
		}
		if !e.deadline.IsZero() && time.Now().After(e.deadline) {
			jr.Undecided = append(jr.Undecided, "time budget exceeded")
			break
		}
		pr := e.RunPath(fn, r.argsFor(e, fn, job.Params), prefix)
		if job.ProbeHang && len(e.pcs) > len(lastPCs) {
			lastPCs = append([]*Term(nil), e.pcs...)
		}
		jr.Paths++
		jr.Instrs += pr.Instrs
		work = append(work, pr.Forks...)
		pid := pathID(pr.Decisions)
		switch pr.Status {
		case "ok":
			jr.OkPaths++
		case "infeasible":
			jr.Infeasible++
		case "panic":
			jr.PanicPaths++
		case "bounded":
			jr.Bounded++
		default:
			jr.Undecided = append(jr.Undecided, pr.Reason)
			if job.ProbeHang && strings.Contains(pr.Reason, "blocked forever") && len(jr.Hangs) < 2 {
				// a deadlock under the modelled schedule (every other goroutine has finished or
				// is blocked for good): confirmed natively under the watchdog or left undecided
				r.probeDirect(job, e, e.pcs, &jr)
			}
			if job.ProbeHang && len(e.pcs) > len(hangPCs) && (strings.Contains(pr.Reason, "budget") || strings.Contains(pr.Reason, "unwinding") || strings.Contains(pr.Reason, "bound exceeded")) {
				hangPCs = append([]*Term(nil), e.pcs...)
			}
		}
		if pr.UnknownBr > 0 {
			jr.Undecided = append(jr.Undecided, fmt.Sprintf("%d branch feasibility queries unknown", pr.UnknownBr))
		}
		for _, b := range e.buses {
			if len(b.trace) > jr.MaxTrace {
				jr.MaxTrace = len(b.trace)
			}
		}
		// vacuity witness: the end of the first completed path is reachable
		if pr.Status == "ok" && jr.Witness == 0 {
			if v, _, _ := sol.Check(e.pcs, nil); v == Sat || len(e.pcs) == 0 {
				jr.Witness++
			}
		}
		if job.KeepPaths {
			jr.PathData = append(jr.PathData, pr)
		}
		jr.Obls = append(jr.Obls, r.discharge(job, e, pr, pid)...)
	}
	if job.ProbeHang && len(jr.Undecided) > 0 {
		if hangPCs == nil {
			hangPCs = lastPCs // the exploration was cut between paths: probe from the deepest completed one
		}
		if hangPCs != nil {
			r.probeHang(job, e, hangPCs, &jr)
		}
	}
	jr.FeasQ = e.feasQ
	jr.Queries = sol.Queries - q0
	jr.SolverTime = sol.Time - t0
	for k, v := range sol.Fallbacks {
		if v > fb0[k] {
			if jr.Fallbacks == nil {
				jr.Fallbacks = map[string]int{}
			}
			jr.Fallbacks[k] = v - fb0[k]
		}
	}
	jr.GlobalW = e.globalW
	jr.GlobalInit = e.globalInit
	jr.GlobalAtomW = e.globalAtomW
	jr.GlobalAtomR = e.globalAtomR
	jr.GlobalR = e.globalR
	jr.LoopFuncs = e.loopFuncs
	jr.RaceChecks = e.raceChecks
	return
}

func pathID(d []decision) string {
	var sb strings.Builder
	for _, x := range d {
		if x.kind == 0 {
			if x.v != 0 {
				sb.WriteByte('t')
			} else {
				sb.WriteByte('f')
			}
		}
	}
	if sb.Len() == 0 {
		return "p"
	}
	return sb.String()
}

func (r *Runner) discharge(job Job, e *Exec, pr PathResult, pid string) []OblResult {
	var out []OblResult
	var pending []int
	for i, o := range pr.Obligations {
		if o.Kind == "panic" && job.NoPanic {
			continue
		}
		res := OblResult{Name: job.Label + "/" + o.Name + "@" + pid, Kind: o.Kind, Detail: o.Detail}
		if o.Cond.IsTrue() {
			res.Verdict = "trivial"
			if len(o.Ident) > 0 {
				// discharged by syntactic identity of non-constant terms
				res.Verdict = "identity"
				all := &Term{op: OpBAnd, id: -1, a: o.Ident}
				res.Hash, res.NVars = termHash(all)
			}
			out = append(out, res)
			continue
		}
		out = append(out, res)
		pending = append(pending, i)
	}
	if len(pending) == 0 {
		return out
	}
	// one query: OR_i (PC_i ∧ ¬c_i)
	neg := make([]*Term, len(pending))
	all := e.st.False
	for k, i := range pending {
		o := pr.Obligations[i]
		neg[k] = e.st.And(e.st.AndN(o.PC), e.st.Not(o.Cond))
		all = e.st.Or(all, neg[k])
	}
	idx := map[int]int{} // obligation index -> position in out
	{
		k := 0
		for j := range out {
			if out[j].Verdict == "" {
				idx[pending[k]] = j
				k++
			}
		}
	}
	start := time.Now()
	v, _, errs := e.sol.Check([]*Term{all}, nil)
	ms := float64(time.Since(start).Microseconds()) / 1000
	for k, i := range pending {
		j := idx[i]
		out[j].Ms = ms / float64(len(pending))
		out[j].Hash, out[j].NVars = termHash(neg[k])
	}
	if v == Unsat {
		for _, i := range pending {
			out[idx[i]].Verdict = "unsat"
		}
		return out
	}
	_ = errs
	// find the failing ones individually
	sats := 0
	for k, i := range pending {
		j := idx[i]
		// thousands of obligations of one path (a long loop) with some failing: the
		// budget applies here too, and a few counterexamples per path are enough
		if (!e.deadline.IsZero() && time.Now().After(e.deadline)) || sats >= 8 {
			out[j].Verdict = "unknown"
			if sats >= 8 {
				out[j].Detail += " not examined: eight obligations of this path already have counterexamples"
			} else {
				out[j].Detail += " time budget exceeded"
			}
			continue
		}
		s2 := time.Now()
		vi, _, err := e.sol.Check([]*Term{neg[k]}, nil)
		if vi == Sat {
			sats++
		}
		out[j].Ms = float64(time.Since(s2).Microseconds()) / 1000
		switch vi {
		case Unsat:
			out[j].Verdict = "unsat"
		case Unknown:
			out[j].Verdict = "unknown"
			out[j].Detail += " " + err
		case Sat:
			out[j].Verdict = "sat"
			o := pr.Obligations[i]
			rf, err := extractModel(e, []*Term{neg[k]})
			if err != nil {
				out[j].Verdict = "unknown"
				out[j].Detail += " model extraction failed: " + err.Error()
				continue
			}
			rf.Dir, rf.Harness, rf.Params = job.Dir, job.Harness, job.Params
			rf.Failed = []string{o.Name}
			rf.Detail = o.Detail
			rf.Solver = e.sol.name
			out[j].Replay = rf
			out[j].Text = o.Cond.String()
		}
	}
	return out
}

func termHash(t *Term) (uint64, int) {
	h := fnv.New64a()
	seen := map[int]bool{}
	nv := 0
	var rec func(t *Term)
	rec = func(t *Term) {
		if seen[t.id] {
			fmt.Fprintf(h, "@%d", t.id)
			return
		}
		seen[t.id] = true
		fmt.Fprintf(h, "(%d:%d:%d:%s:%d:%d", t.op, t.w, t.val, t.name, t.p1, t.p2)
		if t.op == OpVar {
			nv++
		}
		for _, a := range t.a {
			rec(a)
		}
		h.Write([]byte(")"))
	}
	rec(t)
	return h.Sum64(), nv
}

// extractModel asks the solver for the values of every variable in asserts and
// of the initial array contents at every index the formula touches.
func extractModel(e *Exec, asserts []*Term) (*ReplayFile, error) {
	vars := collectVars(asserts...)
	var want []*Term
	var bvVars []*Term
	for _, v := range vars {
		if v.w >= 0 {
			bvVars = append(bvVars, v)
			want = append(want, v)
		}
	}
	// array points
	type pt struct {
		arr *Term
		idx *Term
	}
	var pts []pt
	seen := map[int]bool{}
	seenPt := map[[2]int]bool{}
	var rec func(t *Term)
	root := func(a *Term) *Term {
		for a.op == OpStore {
			a = a.a[0]
		}
		return a
	}
	rec = func(t *Term) {
		if seen[t.id] {
			return
		}
		seen[t.id] = true
		if t.op == OpSelect || t.op == OpStore {
			rt := root(t.a[0])
			if rt.op == OpVar {
				k := [2]int{rt.id, t.a[1].id}
				if !seenPt[k] {
					seenPt[k] = true
					pts = append(pts, pt{rt, t.a[1]})
				}
			}
		}
		for _, a := range t.a {
			rec(a)
		}
	}
	for _, a := range asserts {
		rec(a)
	}
	for _, p := range pts {
		want = append(want, p.idx, e.st.raw(OpSelect, arrElem(p.arr.w), 0, "", 0, 0, p.arr, p.idx))
	}
	// prefer small values for length-like (64-bit) inputs: counterexamples with
	// short buffers replay more faithfully against real I/O layers
	var hints []*Term
	for _, bv := range bvVars {
		if bv.w == 64 {
			hints = append(hints, e.st.Cmp(OpUle, bv, e.st.Const(64, 64)))
		}
	}
	var v Verdict
	var vals []uint64
	var errs string
	if len(hints) > 0 {
		v, vals, errs = e.sol.Check(append(append([]*Term(nil), asserts...), hints...), want)
	}
	if len(hints) == 0 || v != Sat {
		v, vals, errs = e.sol.Check(asserts, want)
	}
	if v != Sat || len(vals) != len(want) {
		return nil, fmt.Errorf("model query: %v %s", v, errs)
	}
	rf := &ReplayFile{Vals: map[string]uint64{}, Arrays: map[string]ReplayAr{}}
	for i, bv := range bvVars {
		rf.Vals[bv.name] = vals[i]
	}
	off := len(bvVars)
	for i, p := range pts {
		a, ok := rf.Arrays[p.arr.name]
		if !ok {
			a = ReplayAr{M: map[string]uint64{}}
		}
		a.M[fmt.Sprint(vals[off+2*i])] = vals[off+2*i+1]
		rf.Arrays[p.arr.name] = a
	}
	return rf, nil
}

// writeReplay stores a replay file under /verif/replays and returns its path.
func writeReplay(rf *ReplayFile, prop, obl string) (string, error) {
	rf.Property, rf.Obligation = prop, obl
	dir := filepath.Join(verifDir, "replays")
	os.MkdirAll(dir, 0o755)
	h := fnv.New32a()
	h.Write([]byte(obl))
	name := fmt.Sprintf("%s-%08x.json", prop, h.Sum32())
	p := filepath.Join(dir, name)
	b, err := jsonIndent(rf)
	if err != nil {
		return "", err
	}
	return p, os.WriteFile(p, b, 0o644)
}

func sortedFuncs(rs []JobResult) []string {
	m := map[string]bool{}
	for _, r := range rs {
		for f := range r.Funcs {
			m[f] = true
		}
	}
	out := make([]string, 0, len(m))
	for f := range m {
		out = append(out, f)
	}
	sort.Strings(out)
	return out
}

// probeHang: the exploration of this job was cut short (budget, unwinding or
// path bound - typically a loop whose trip count depends on the input).  Try
// the corner values (all zeros / all ones) of the narrow inputs the last branch
// conditions depend on, keep those the path condition allows, and run the
// harness natively on them under a watchdog: an input on which the real code
// does not come back is a confirmed violation of termination.  Sound (only
// native hangs are reported), not complete.
func (r *Runner) probeHang(job Job, e *Exec, pcs []*Term, jr *JobResult) {
	// the narrow inputs that occur in the most branch conditions of the path: the
	// ones a loop test depends on recur in every iteration
	count := map[*Term]int{}
	for _, pc := range pcs {
		for _, v := range collectVars(pc) {
			if v.w > 0 && v.w <= 16 {
				count[v]++
			}
		}
	}
	var vars []*Term
	for v := range count {
		vars = append(vars, v)
	}
	sort.Slice(vars, func(i, j int) bool {
		if count[vars[i]] != count[vars[j]] {
			return count[vars[i]] > count[vars[j]]
		}
		return vars[i].name < vars[j].name
	})
	if len(vars) > 4 {
		vars = vars[:4]
	}
	dbg := os.Getenv("ZSYM_DEBUG_PROBE") != ""
	if dbg {
		fmt.Fprintf(os.Stderr, "probe %s: %d pcs, vars=%d\n", job.Label, len(pcs), len(vars))
		for _, v := range vars {
			fmt.Fprintf(os.Stderr, "  var %s w=%d count=%d\n", v.name, v.w, count[v])
		}
		v0, _, _ := e.sol.Check(pcs, nil)
		fmt.Fprintf(os.Stderr, "  pcs alone: %v; last: %s\n", v0, pcs[len(pcs)-1].String())
		as0 := &Assign{bv: map[string]uint64{}, arr: map[string]*arrVal{}}
		for _, v := range vars {
			as0.bv[v.name] = 0
		}
		func() {
			defer func() { recover() }()
			for i, pc := range pcs {
				if r, ok := evalTerm(pc, as0, map[int]interface{}{}).(uint64); ok && r == 0 {
					fmt.Fprintf(os.Stderr, "  pc %d false under zeros: %s\n", i, pc.String())
					break
				}
			}
		}()
	}
	if len(vars) == 0 {
		return
	}
	tried := 0
	// first under the whole path condition of the deepest path; then, because that
	// path is only one of the branches the budget left unexplored, with the corner
	// values alone (every other input at its default)
	for round := 0; round < 2; round++ {
		for mask := 0; mask < 1<<uint(len(vars)) && tried < 8; mask++ {
			var as []*Term
			if round == 0 {
				as = append(as, pcs...)
			}
			for i, v := range vars {
				c := uint64(0)
				if mask>>uint(i)&1 == 1 {
					c = 1<<uint(v.w) - 1
				}
				as = append(as, e.st.Eq(v, e.st.Const(v.w, c)))
			}
			if v, _, es := e.sol.Check(as, nil); v != Sat {
				if dbg {
					fmt.Fprintf(os.Stderr, "probe %s mask %d: %v %s\n", job.Label, mask, v, es)
				}
				continue
			}
			rf, err := extractModel(e, as)
			if err != nil {
				if dbg {
					fmt.Fprintf(os.Stderr, "probe %s mask %d: model: %v\n", job.Label, mask, err)
				}
				continue
			}
			tried++
			rf.Dir, rf.Harness, rf.Params = job.Dir, job.Harness, job.Params
			rf.Failed = []string{"terminates"}
			rf.Detail = "the harness did not return within the watchdog when run natively on this input (the symbolic exploration was cut short inside a loop)"
			rf.Solver = e.sol.name
			path, err := writeReplay(rf, "probe", job.Label+fmt.Sprintf("/terminates/%d.%d", round, mask))
			if err != nil {
				continue
			}
			r.L.wdMu.Lock()
			r.L.watchdog = "10s"
			res, _, _ := r.L.RunNative(job.Dir, []string{path}, false)
			r.L.watchdog = ""
			r.L.wdMu.Unlock()
			os.Remove(path)
			if dbg {
				fmt.Fprintf(os.Stderr, "probe %s mask %d: native %+v\n", job.Label, mask, res)
			}
			if len(res) == 1 && res[0].Hang {
				jr.Hangs = append(jr.Hangs, rf)
				return
			}
		}
	}
}

// probeDirect: run the harness natively under the watchdog on a model of this
// very path (used when the interpreter found the main goroutine blocked for good).
func (r *Runner) probeDirect(job Job, e *Exec, pcs []*Term, jr *JobResult) {
	as := append([]*Term(nil), pcs...)
	var rf *ReplayFile
	var err error
	if len(as) == 0 {
		rf = &ReplayFile{Vals: map[string]uint64{}, Arrays: map[string]ReplayAr{}}
	} else if rf, err = extractModel(e, as); err != nil {
		return
	}
	rf.Dir, rf.Harness, rf.Params = job.Dir, job.Harness, job.Params
	rf.Failed = []string{"terminates"}
	rf.Detail = "the harness did not return within the watchdog when run natively on this input (the interpreter found the main goroutine blocked for good under the modelled schedule)"
	rf.Solver = e.sol.name
	path, err := writeReplay(rf, "probe", job.Label+fmt.Sprintf("/terminates/deadlock%d", len(jr.Hangs)))
	if err != nil {
		return
	}
	r.L.wdMu.Lock()
	r.L.watchdog = "10s"
	res, _, _ := r.L.RunNative(job.Dir, []string{path}, false)
	r.L.watchdog = ""
	r.L.wdMu.Unlock()
	os.Remove(path)
	if len(res) == 1 && res[0].Hang {
		jr.Hangs = append(jr.Hangs, rf)
	}
}
