package main

// Symbolic values and the heap of the SSA interpreter.

import (
	"fmt"
	"go/types"

	"golang.org/x/tools/go/ssa"
)

type Value interface{}

// scalars are *Term.

type StructV struct{ f []Value }

// ArrayV: array of non-byte elements; concrete indices only.
type ArrayV struct{ e []Value }

// BytesV: array of uint8 as an SMT array indexed by 64-bit ints.
type BytesV struct {
	arr *Term
	n   int // static length, -1 if unbounded backing store
}

type Obj struct {
	v    Value
	id   int
	name string
}

type pathElem struct {
	i   int
	sym *Term // non-nil: symbolic index (64-bit) into a BytesV
}

type PtrV struct {
	obj  *Obj // nil = nil pointer
	path []pathElem
}

type SliceV struct {
	obj           *Obj // nil = nil slice
	path          []pathElem
	off, len, cap *Term // 64-bit
}

type IfaceV struct {
	t types.Type // nil = nil interface
	v Value
}

type MapObj struct {
	present *Term // Array K -> Bool
	vals    *Term // Array K -> V (nil for struct{} values)
	kw, vw  int
	cands   []*Term
	id      int
	global  string // reachable from this package-level variable
}

type MapV struct{ m *MapObj } // m == nil: nil map

type StringV struct {
	lit   string
	isSym bool
	arr   *Term // Array64->8
	n     *Term // 64-bit length
}

type FuncV struct {
	fn   *ssa.Function
	free []Value
	ext  string // name of an external / intrinsic closure (e.g. cancel func)
	data interface{}
}

type TupleV []Value

// OpaqueV stands for values of types the engine does not model (contexts,
// errors from stubs, files ...). Identity only.
type OpaqueV struct {
	kind string
	id   int
	data interface{}
}

// BusState is the symbolic bus (harness intrinsic type vBus).
type BusEvent struct {
	kind int // 0 memR 1 memW 2 portIn 3 portOut
	addr *Term
	val  *Term
}

type BusState struct {
	name    string
	mem     *Term // Array16->8 current contents
	mem0    *Term // contents at creation
	inName  string
	inCount int
	trace   []BusEvent
	hook    *FuncV
}

// IterV is the state of a map range.
type IterV struct {
	m     *MapObj
	pos   int
	cands []*Term
	seen  []*Term
	// snapshot of the map at Range time
	present *Term
	vals    *Term
}

func copyVal(v Value) Value {
	switch x := v.(type) {
	case *StructV:
		n := &StructV{f: make([]Value, len(x.f))}
		for i, f := range x.f {
			n.f[i] = copyVal(f)
		}
		return n
	case *ArrayV:
		n := &ArrayV{e: make([]Value, len(x.e))}
		for i, f := range x.e {
			n.e[i] = copyVal(f)
		}
		return n
	case *BytesV:
		return &BytesV{arr: x.arr, n: x.n}
	}
	return v
}

func intWidth(t types.Type) (w int, signed bool, ok bool) {
	b, isb := t.Underlying().(*types.Basic)
	if !isb {
		return 0, false, false
	}
	switch b.Kind() {
	case types.Bool, types.UntypedBool:
		return 0, false, true
	case types.Int8:
		return 8, true, true
	case types.Uint8:
		return 8, false, true
	case types.Int16:
		return 16, true, true
	case types.Uint16:
		return 16, false, true
	case types.Int32, types.UntypedRune:
		return 32, true, true
	case types.Uint32:
		return 32, false, true
	case types.Int64, types.Int, types.UntypedInt:
		return 64, true, true
	case types.Uint64, types.Uint, types.Uintptr:
		return 64, false, true
	}
	return 0, false, false
}

func isByteArray(t types.Type) (int, bool) {
	a, ok := t.Underlying().(*types.Array)
	if !ok {
		return 0, false
	}
	if b, ok := a.Elem().Underlying().(*types.Basic); ok && b.Kind() == types.Uint8 {
		return int(a.Len()), true
	}
	return 0, false
}

// intElemWidth: element width if t is an array or slice of fixed-width
// integers (8, 16, 32, 64 bits; not bool): such containers are SMT arrays and
// may be indexed symbolically.
func intElemWidth(t types.Type) (int, bool) {
	var et types.Type
	switch u := t.Underlying().(type) {
	case *types.Array:
		et = u.Elem()
	case *types.Slice:
		et = u.Elem()
	default:
		return 0, false
	}
	w, _, ok := intWidth(et)
	if !ok || w == 0 {
		return 0, false
	}
	return w, true
}

func isByteSlice(t types.Type) bool {
	a, ok := t.Underlying().(*types.Slice)
	if !ok {
		return false
	}
	b, ok := a.Elem().Underlying().(*types.Basic)
	return ok && b.Kind() == types.Uint8
}

var bytesSort = ArrSort(64, 8)
var memSort = ArrSort(16, 8)

func (e *Exec) zero(t types.Type) Value {
	switch u := t.Underlying().(type) {
	case *types.Basic:
		if u.Kind() == types.String || u.Kind() == types.UntypedString {
			return &StringV{lit: ""}
		}
		if u.Kind() == types.UnsafePointer {
			return &PtrV{}
		}
		if u.Kind() == types.UntypedNil {
			return &PtrV{}
		}
		w, _, ok := intWidth(t)
		if !ok {
			e.unsupported("zero value of " + t.String())
		}
		return e.st.Const(w, 0)
	case *types.Struct:
		s := &StructV{f: make([]Value, u.NumFields())}
		for i := range s.f {
			s.f[i] = e.zero(u.Field(i).Type())
		}
		return s
	case *types.Array:
		if ew, ok := intElemWidth(t); ok {
			return &BytesV{arr: e.st.ConstArr(ArrSort(64, ew), 0), n: int(u.Len())}
		}
		a := &ArrayV{e: make([]Value, int(u.Len()))}
		for i := range a.e {
			a.e[i] = e.zero(u.Elem())
		}
		return a
	case *types.Pointer:
		return &PtrV{}
	case *types.Slice:
		return &SliceV{off: e.c64(0), len: e.c64(0), cap: e.c64(0)}
	case *types.Interface:
		return &IfaceV{}
	case *types.Map:
		return &MapV{}
	case *types.Signature:
		return &FuncV{}
	case *types.Chan:
		return &ChanV{}
	case *types.Tuple:
		tv := make(TupleV, u.Len())
		for i := range tv {
			tv[i] = e.zero(u.At(i).Type())
		}
		return tv
	}
	e.unsupported("zero value of " + t.String())
	return nil
}

func (e *Exec) c64(v int64) *Term { return e.st.Const(64, uint64(v)) }

// havoc builds a value of type t whose scalar leaves are fresh variables.
func (e *Exec) havoc(t types.Type, name string) Value {
	switch u := t.Underlying().(type) {
	case *types.Basic:
		if u.Kind() == types.String || u.Kind() == types.UnsafePointer {
			return e.zero(t)
		}
		w, _, ok := intWidth(t)
		if !ok {
			e.unsupported("havoc of " + t.String())
		}
		return e.st.Var(name, w)
	case *types.Struct:
		s := &StructV{f: make([]Value, u.NumFields())}
		for i := range s.f {
			s.f[i] = e.havoc(u.Field(i).Type(), name+"."+u.Field(i).Name())
		}
		return s
	case *types.Array:
		if ew, ok := intElemWidth(t); ok {
			return &BytesV{arr: e.st.Var(name, ArrSort(64, ew)), n: int(u.Len())}
		}
		a := &ArrayV{e: make([]Value, int(u.Len()))}
		for i := range a.e {
			a.e[i] = e.havoc(u.Elem(), fmt.Sprintf("%s[%d]", name, i))
		}
		return a
	case *types.Slice:
		// integer slices: arbitrary length 0..4 and contents; other slices stay nil
		if ew, ok := intElemWidth(t); ok {
			n := e.st.Var(name+".len", 64)
			e.Assume(e.st.Cmp(OpUle, n, e.c64(4)), "havoc: slice length 0..4")
			o := e.newObj(&BytesV{arr: e.st.Var(name, ArrSort(64, ew)), n: -1}, "havoc slice")
			return &SliceV{obj: o, off: e.c64(0), len: n, cap: n}
		}
		return e.zero(t)
	case *types.Pointer, *types.Interface, *types.Map, *types.Signature, *types.Chan:
		// left at the zero value (not modelled as arbitrary)
		return e.zero(t)
	}
	if b, ok := t.Underlying().(*types.Basic); ok && b.Kind() == types.String {
		return e.zero(t)
	}
	e.unsupported("havoc of " + t.String())
	return nil
}

func (e *Exec) newObj(v Value, name string) *Obj {
	e.objSeq++
	return &Obj{v: v, id: e.objSeq, name: name}
}

// navigate returns the container and last element so that a load or store can
// be performed.
func (e *Exec) load(p *PtrV) Value {
	if p.obj == nil {
		e.unsupported("load through nil pointer (should have been caught)")
	}
	v := p.obj.v
	for _, pe := range p.path {
		switch c := v.(type) {
		case *StructV:
			v = c.f[pe.i]
		case *ArrayV:
			if pe.sym != nil {
				// symbolic index into an array of (structs of) scalars: ite chain
				v = e.selectElems(c, pe.sym)
				continue
			}
			v = c.e[pe.i]
		case *BytesV:
			idx := pe.sym
			if idx == nil {
				idx = e.c64(int64(pe.i))
			}
			return e.selectR(c.arr, idx)
		default:
			e.unsupported(fmt.Sprintf("load: path through %T", v))
		}
	}
	return copyVal(v)
}

func (e *Exec) store(p *PtrV, val Value) {
	if p.obj == nil {
		e.unsupported("store through nil pointer (should have been caught)")
	}
	val = copyVal(val)
	if len(p.path) == 0 {
		p.obj.v = val
		return
	}
	v := p.obj.v
	for k, pe := range p.path {
		last := k == len(p.path)-1
		switch c := v.(type) {
		case *StructV:
			if last {
				c.f[pe.i] = val
				return
			}
			v = c.f[pe.i]
		case *ArrayV:
			if pe.sym != nil {
				if !last {
					e.unsupported("store below a symbolically indexed array element")
				}
				if len(c.e) > 4096 {
					e.unsupported("symbolic index into an array of more than 4096 non-integer elements")
				}
				for i := range c.e {
					c.e[i] = e.mergeVal(e.st.Eq(pe.sym, e.c64(int64(i))), val, c.e[i])
				}
				return
			}
			if last {
				c.e[pe.i] = val
				return
			}
			v = c.e[pe.i]
		case *BytesV:
			idx := pe.sym
			if idx == nil {
				idx = e.c64(int64(pe.i))
			}
			if !last {
				e.unsupported("path below byte element")
			}
			c.arr = e.st.StoreArr(c.arr, idx, val.(*Term))
			return
		default:
			e.unsupported(fmt.Sprintf("store: path through %T", v))
		}
	}
}

func extendPath(p []pathElem, pe pathElem) []pathElem {
	n := make([]pathElem, len(p)+1)
	copy(n, p)
	n[len(p)] = pe
	return n
}

func samePath(a, b []pathElem) bool {
	if len(a) != len(b) {
		return false
	}
	for i := range a {
		if a[i].i != b[i].i || a[i].sym != b[i].sym {
			return false
		}
	}
	return true
}

// mergeVal: ite over values made of scalars and structs/arrays of scalars.
func (e *Exec) mergeVal(c *Term, a, b Value) Value {
	switch x := a.(type) {
	case *Term:
		return e.st.Ite(c, x, b.(*Term))
	case *StructV:
		y := b.(*StructV)
		n := &StructV{f: make([]Value, len(x.f))}
		for i := range x.f {
			n.f[i] = e.mergeVal(c, x.f[i], y.f[i])
		}
		return n
	case *BytesV:
		y := b.(*BytesV)
		if x.arr == y.arr {
			return x
		}
		return &BytesV{arr: e.st.Ite(c, x.arr, y.arr), n: x.n}
	}
	e.unsupported(fmt.Sprintf("symbolic selection between values of kind %T", a))
	return nil
}

func (e *Exec) selectElems(a *ArrayV, idx *Term) Value {
	if len(a.e) == 0 {
		e.unsupported("symbolic index into empty array")
	}
	if len(a.e) > 4096 {
		e.unsupported("symbolic index into an array of more than 4096 non-integer elements")
	}
	r := copyVal(a.e[len(a.e)-1])
	for i := len(a.e) - 2; i >= 0; i-- {
		r = e.mergeVal(e.st.Eq(idx, e.c64(int64(i))), a.e[i], r)
	}
	return r
}
