package main

// Harness intrinsics (functions named v* in the overlay files) and contract
// stubs for calls that leave the repository module.

import (
	"fmt"
	"go/types"
	"os"
	"path/filepath"
	"strconv"
	"strings"

	"golang.org/x/tools/go/ssa"
)

func recvNamed(fn *ssa.Function) string {
	sig := fn.Signature
	if sig.Recv() == nil {
		return ""
	}
	t := sig.Recv().Type()
	if p, ok := t.(*types.Pointer); ok {
		t = p.Elem()
	}
	if n, ok := t.(*types.Named); ok {
		return n.Obj().Name()
	}
	return ""
}

func (e *Exec) busOf(v Value) *BusState {
	p, ok := v.(*PtrV)
	if !ok || p.obj == nil {
		e.unsupported("bus method on nil / non-pointer")
	}
	b, ok := p.obj.v.(*BusState)
	if !ok {
		e.unsupported("bus method on non-bus object")
	}
	return b
}

func (e *Exec) intrinsic(fn *ssa.Function, name string, args []Value) (Value, bool) {
	if rn := recvNamed(fn); rn != "" {
		if rn == "vBus" {
			return e.busMethod(name, args)
		}
		return nil, false
	}
	if len(name) < 2 || name[0] != 'v' || name[1] < 'A' || name[1] > 'Z' {
		return nil, false
	}
	switch name {
	case "vU8":
		return e.st.Var(e.constString(args[0]), 8), true
	case "vU16":
		return e.st.Var(e.constString(args[0]), 16), true
	case "vU8N":
		return e.st.Var(fmt.Sprintf("%s%d", e.constString(args[0]), e.constInt(args[1])), 8), true
	case "vU16N":
		return e.st.Var(fmt.Sprintf("%s%d", e.constString(args[0]), e.constInt(args[1])), 16), true
	case "vBoolN":
		return e.st.Var(fmt.Sprintf("%s%d", e.constString(args[0]), e.constInt(args[1])), 0), true
	case "vU32":
		return e.st.Var(e.constString(args[0]), 32), true
	case "vU64", "vInt":
		return e.st.Var(e.constString(args[0]), 64), true
	case "vBool":
		return e.st.Var(e.constString(args[0]), 0), true
	case "vHavoc":
		iv := args[0].(*IfaceV)
		p := iv.v.(*PtrV)
		et := iv.t.Underlying().(*types.Pointer).Elem()
		e.store(p, e.havoc(et, e.constString(args[1])))
		return nil, true
	case "vHavocFields":
		// havoc every field of *p except the named ones (comma separated)
		iv := args[0].(*IfaceV)
		p := iv.v.(*PtrV)
		st := iv.t.Underlying().(*types.Pointer).Elem().Underlying().(*types.Struct)
		nm := e.constString(args[1])
		skip := map[string]bool{}
		for _, x := range strings.Split(e.constString(args[2]), ",") {
			skip[x] = true
		}
		for i := 0; i < st.NumFields(); i++ {
			f := st.Field(i)
			if skip[f.Name()] {
				continue
			}
			fp := &PtrV{obj: p.obj, path: extendPath(p.path, pathElem{i: i})}
			switch u := f.Type().Underlying().(type) {
			case *types.Basic, *types.Struct, *types.Array, *types.Slice:
				if b, ok := u.(*types.Basic); ok && b.Kind() == types.String {
					continue
				}
				e.store(fp, e.havoc(f.Type(), nm+"."+f.Name()))
			case *types.Map:
				kw, _, ok := intWidth(u.Key())
				if !ok || kw != 16 {
					continue
				}
				vw := 0
				if w, _, ok := intWidth(u.Elem()); ok && w > 0 {
					vw = w
				} else if est, ok := u.Elem().Underlying().(*types.Struct); !ok || est.NumFields() != 0 {
					continue
				}
				e.store(fp, e.mapHavoc([]Value{&StringV{lit: nm + "." + f.Name()}, e.c64(2), e.c64(int64(vw))}))
			}
		}
		return nil, true
	case "vBytes":
		n := e.constInt(args[1])
		o := e.newObj(&BytesV{arr: e.st.Var(e.constString(args[0]), bytesSort), n: -1}, "vBytes")
		return &SliceV{obj: o, off: e.c64(0), len: e.c64(n), cap: e.c64(n)}, true
	case "vFile":
		// contents of a file of the repository's working tree (ground data)
		rel := e.constString(args[0])
		data, err := os.ReadFile(filepath.Join(repoDir, rel))
		if err != nil {
			e.unsupported("vFile: " + err.Error())
		}
		arr := e.st.ConstArr(bytesSort, 0)
		for i, b := range data {
			arr = e.st.StoreArr(arr, e.c64(int64(i)), e.st.Const(8, uint64(b)))
		}
		o := e.newObj(&BytesV{arr: arr, n: -1}, "file:"+rel)
		n := e.c64(int64(len(data)))
		return &SliceV{obj: o, off: e.c64(0), len: n, cap: n}, true
	case "vBytesN":
		// slice with symbolic length (64-bit term given), symbolic content
		n := args[1].(*Term)
		o := e.newObj(&BytesV{arr: e.st.Var(e.constString(args[0]), bytesSort), n: -1}, "vBytesN")
		return &SliceV{obj: o, off: e.c64(0), len: n, cap: n}, true
	case "vAssume":
		e.Assume(args[0].(*Term), fmt.Sprintf("#%d", len(e.assumes)))
		e.assumes = append(e.assumes, args[0].(*Term).String())
		return nil, true
	case "vAssert":
		e.Assert(e.constString(args[0]), args[1].(*Term))
		return nil, true
	case "vIteU8", "vIteU16", "vIteInt", "vIteBool", "vIteU32":
		return e.st.Ite(args[0].(*Term), args[1].(*Term), args[2].(*Term)), true
	case "vAnd":
		return e.st.And(args[0].(*Term), args[1].(*Term)), true
	case "vOr":
		return e.st.Or(args[0].(*Term), args[1].(*Term)), true
	case "vImplies":
		return e.st.Or(e.st.Not(args[0].(*Term)), args[1].(*Term)), true
	case "vObserve":
		nm, ok := args[0].(*StringV)
		if !ok || nm.isSym {
			e.unsupported("vObserve needs a constant name")
		}
		e.observed = append(e.observed, Observation{nm.lit, args[1].(*Term)})
		return nil, true
	case "vNote":
		e.events = append(e.events, Event{Kind: "note:" + e.constString(args[0])})
		return nil, true
	case "vNewBus":
		nm := e.constString(args[0])
		m := e.st.Var(nm+".mem", memSort)
		b := &BusState{name: nm, mem: m, mem0: m, inName: nm}
		e.buses[nm] = b
		return &PtrV{obj: e.newObj(b, "bus:"+nm)}, true
	case "vTraceMultisetEq":
		return e.traceMultisetEq(e.busOf(args[0]), e.busOf(args[1])), true
	case "vTraceSeqEq":
		return e.traceSeqEq(e.busOf(args[0]), e.busOf(args[1]), 0), true
	case "vTraceSeqEqFrom":
		return e.traceSeqEq(e.busOf(args[0]), e.busOf(args[1]), int(e.constInt(args[2]))), true
	case "vEventCount":
		k := "note:" + e.constString(args[0])
		n := 0
		for _, ev := range e.events {
			if ev.Kind == k {
				n++
			}
		}
		return e.c64(int64(n)), true
	case "vWarnCount":
		n := 0
		for _, ev := range e.events {
			if ev.Kind == "warn" {
				n++
			}
		}
		return e.c64(int64(n)), true
	case "vCancelReleased":
		// no goroutine left behind: every recorded goroutine ran to completion
		e.wakeNow()
		for _, t := range e.threads {
			if !t.done {
				return e.st.False, true
			}
		}
		return e.st.True, true
	case "vIsErrOf":
		// err is the error of ctx (identity = the cancelled ancestor that caused it)
		ei := args[0].(*IfaceV)
		ci := args[1].(*IfaceV)
		eo, ok1 := ei.v.(*OpaqueV)
		co, ok2 := ci.v.(*OpaqueV)
		if ei.t == nil || !ok1 || !ok2 || eo.kind != "ctxerr" {
			return e.st.False, true
		}
		return e.st.Bool(eo.id == e.ctxCause(co.id) && eo.id != 0), true
	case "vEventBefore":
		a, b := e.constString(args[0]), e.constString(args[1])
		ia, ib := -1, -1
		for i, ev := range e.events {
			if ev.Kind == a && ia < 0 {
				ia = i
			}
			if ev.Kind == b && ib < 0 {
				ib = i
			}
		}
		return e.st.Bool(ia >= 0 && ib >= 0 && ia < ib), true
	case "vSettle":
		// natively: time for woken goroutines to run; here: run whatever is runnable
		// (a no-op under the default eager schedule)
		e.wakeNow()
		return nil, true
	case "vSchedLazy":
		e.lazy = args[0].(*Term).IsTrue()
		return nil, true
	case "vStress":
		return e.c64(1), true
	case "vStop":
		panic(pathEnd{"bounded", "harness bound reached: " + e.constString(args[0])})
	case "vKindCount":
		k := e.constString(args[0])
		n := 0
		for _, ev := range e.events {
			if ev.Kind == k {
				n++
			}
		}
		return e.c64(int64(n)), true
	case "vGoCount":
		return e.c64(int64(len(e.threads))), true
	case "vRunThread":
		i := int(e.constInt(args[0]))
		if i >= len(e.threads) {
			e.unsupported("vRunThread: no such thread")
		}
		e.unsupported("vRunThread is obsolete")
		return nil, true
	case "vMapHavoc":
		return e.mapHavoc(args), true
	case "vMapU16U8":
		return e.mapHavoc([]Value{args[0], args[1], e.c64(8)}), true
	case "vMapU16Set":
		return e.mapHavoc([]Value{args[0], args[1], e.c64(0)}), true
	case "vSymLen":
		// a 64-bit symbolic int constrained by the harness
		return e.st.Var(e.constString(args[0]), 64), true
	case "vStr":
		// symbolic string of concrete length n
		n := e.constInt(args[1])
		return &StringV{isSym: true, arr: e.st.Var(e.constString(args[0]), bytesSort), n: e.c64(n)}, true
	case "vCmdBegin", "vCmdEnd":
		return nil, true
	case "vCmdFile":
		e.cmd.fileName = args[0].(*StringV)
		e.cmd.file = args[1].(*SliceV)
		return nil, true
	case "vCmdInPlace":
		e.cmd.fileName = &StringV{lit: "out.dat"}
		e.cmd.file = args[1].(*SliceV)
		e.cmd.inPlace = true
		e.cmd.flags[e.constString(args[0])] = &StringV{lit: "out.dat"}
		return nil, true
	case "vCmdFlag":
		e.cmd.flags[e.constString(args[0])] = args[1]
		return nil, true
	case "vCmdFlagUint":
		e.cmd.flags[e.constString(args[0])] = args[1]
		return nil, true
	case "vOutLen":
		n := e.c64(0)
		for _, sg := range e.cmd.out {
			n = e.st.Bin(OpAdd, n, sg.n)
		}
		if e.cmd.noTrunc {
			// the output file may have existed with cmd.oldlen bytes
			old := e.st.Var("cmd.oldlen", 64)
			n = e.st.Ite(e.st.And(e.st.Cmp(OpUlt, n, old), e.st.Cmp(OpUle, old, e.c64(1<<20))), old, n)
		}
		return n, true
	case "vOutFlushed":
		return e.st.Bool(e.cmd.flushed && e.cmd.closed), true
	case "vOutByte":
		return e.outAt(e.c64(e.constInt(args[0]))), true
	case "vOutEqAt":
		// out[i+j] == b[j]
		i := e.constInt(args[0])
		b := args[1].(*SliceV)
		j := args[2].(*Term)
		bb := e.sliceBytes(b)
		return e.st.Eq(e.outAt(e.st.Bin(OpAdd, e.c64(i), j)), e.st.Select(bb.arr, e.st.Bin(OpAdd, b.off, j))), true
	}
	return nil, false
}

func (e *Exec) busMethod(name string, args []Value) (Value, bool) {
	b := e.busOf(args[0])
	switch name {
	case "Get":
		a := args[1].(*Term)
		v := e.selectR(b.mem, a)
		b.trace = append(b.trace, BusEvent{0, a, v})
		e.busHook(b, 0, a, v)
		return v, true
	case "Set":
		a, v := args[1].(*Term), args[2].(*Term)
		b.mem = e.st.StoreArr(b.mem, a, v)
		b.trace = append(b.trace, BusEvent{1, a, v})
		e.busHook(b, 1, a, v)
		return nil, true
	case "In":
		a := args[1].(*Term)
		v := e.st.Var(fmt.Sprintf("%s.in%d", b.inName, b.inCount), 8)
		b.inCount++
		b.trace = append(b.trace, BusEvent{2, e.st.Zext(16, a), v})
		e.busHook(b, 2, e.st.Zext(16, a), v)
		return v, true
	case "Out":
		a, v := args[1].(*Term), args[2].(*Term)
		b.trace = append(b.trace, BusEvent{3, e.st.Zext(16, a), v})
		e.busHook(b, 3, e.st.Zext(16, a), v)
		return nil, true
	case "Peek":
		return e.st.Select(b.mem, args[1].(*Term)), true
	case "Peek0":
		return e.st.Select(b.mem0, args[1].(*Term)), true
	case "Poke":
		b.mem = e.st.StoreArr(b.mem, args[1].(*Term), args[2].(*Term))
		return nil, true
	case "Fork":
		nm := e.constString(args[1])
		nb := &BusState{name: nm, mem: b.mem, mem0: b.mem, inName: b.inName}
		e.buses[nm] = nb
		return &PtrV{obj: e.newObj(nb, "bus:"+nm)}, true
	case "Len":
		return e.c64(int64(len(b.trace))), true
	case "Kind":
		return e.c64(int64(b.trace[e.traceIdx(b, args[1])].kind)), true
	case "Addr":
		return b.trace[e.traceIdx(b, args[1])].addr, true
	case "Val":
		return b.trace[e.traceIdx(b, args[1])].val, true
	case "ResetTrace":
		b.trace = nil
		return nil, true
	case "OnAccess":
		fv := args[1].(*FuncV)
		b.hook = fv
		return nil, true
	case "CountKind":
		k := int(e.constInt(args[1]))
		n := 0
		for _, ev := range b.trace {
			if ev.kind == k {
				n++
			}
		}
		return e.c64(int64(n)), true
	}
	return nil, false
}

func (e *Exec) busHook(b *BusState, kind int, a, v *Term) {
	if b.hook == nil {
		return
	}
	h := b.hook
	b.hook = nil // no re-entrancy
	e.invoke(h, []Value{e.c64(int64(kind)), a, v})
	b.hook = h
}

func (e *Exec) traceIdx(b *BusState, v Value) int {
	i := int(e.constInt(v))
	if i < 0 || i >= len(b.trace) {
		e.unsupported(fmt.Sprintf("trace index %d out of range (len %d)", i, len(b.trace)))
	}
	return i
}

// traceMultisetEq: both traces contain the same (kind,addr,val) tuples with the
// same multiplicities.  Encoded with a fresh tuple: counts must agree.
func (e *Exec) traceMultisetEq(a, b *BusState) *Term {
	if len(a.trace) != len(b.trace) {
		return e.st.False
	}
	if len(a.trace) == 0 {
		return e.st.True
	}
	// Instead of a quantified tuple we use the standard finite argument: two
	// multisets of equal size n are equal iff for each element x of A,
	// count_A(x) == count_B(x).  (If all elements of A have matching counts in
	// B, then sum over distinct x in A of count_B(x) = n = |B|, so B has no
	// other elements.)
	r := e.st.True
	match := func(x, y BusEvent) *Term {
		if x.kind != y.kind {
			return e.st.False
		}
		return e.st.And(e.st.Eq(x.addr, y.addr), e.st.Eq(x.val, y.val))
	}
	cw := 8
	for _, x := range a.trace {
		ca, cb := e.st.Const(cw, 0), e.st.Const(cw, 0)
		for _, y := range a.trace {
			ca = e.st.Bin(OpAdd, ca, e.st.Ite(match(x, y), e.st.Const(cw, 1), e.st.Const(cw, 0)))
		}
		for _, y := range b.trace {
			cb = e.st.Bin(OpAdd, cb, e.st.Ite(match(x, y), e.st.Const(cw, 1), e.st.Const(cw, 0)))
		}
		r = e.st.And(r, e.st.Eq(ca, cb))
	}
	return r
}

func (e *Exec) traceSeqEq(a, b *BusState, from int) *Term {
	if len(a.trace) != len(b.trace) {
		return e.st.False
	}
	r := e.st.True
	for i := from; i < len(a.trace); i++ {
		x, y := a.trace[i], b.trace[i]
		if x.kind != y.kind {
			return e.st.False
		}
		r = e.st.And(r, e.st.And(e.st.Eq(x.addr, y.addr), e.st.Eq(x.val, y.val)))
	}
	return r
}

// mapHavoc(name, n): a non-nil map[uint16]T with at most n entries: n symbolic
// candidate keys, each with a symbolic presence bit (and value).
func (e *Exec) mapHavoc(args []Value) Value {
	nm := e.constString(args[0])
	n := int(e.constInt(args[1]))
	vw := int(e.constInt(args[2])) // 0 = struct{} values
	e.objSeq++
	m := &MapObj{kw: 16, vw: -1, id: e.objSeq}
	m.present = e.st.ConstArr(ArrSort(16, 0), 0)
	if vw > 0 {
		m.vw = vw
		m.vals = e.st.ConstArr(ArrSort(16, vw), 0)
	}
	for i := 0; i < n; i++ {
		k := e.st.Var(fmt.Sprintf("%s.k%d", nm, i), 16)
		p := e.st.Var(fmt.Sprintf("%s.p%d", nm, i), 0)
		// a later candidate equal to an earlier one must not un-set it
		m.present = e.st.StoreArr(m.present, k, e.st.Or(p, e.st.Select(m.present, k)))
		if vw > 0 {
			v := e.st.Var(fmt.Sprintf("%s.v%d", nm, i), vw)
			m.vals = e.st.StoreArr(m.vals, k, v)
		}
		m.cands = append(m.cands, k)
	}
	return &MapV{m: m}
}

// ---------------------------------------------------------------------------
// stubs for external callees

// pureStrings: pure functions of package strings / strconv that are evaluated by
// the real library when every argument is concrete (a literal string or a
// constant integer); with a symbolic argument they stay unsupported.
func (e *Exec) pureStrings(full string, args []Value) (Value, bool) {
	if !strings.HasPrefix(full, "strings.") && !strings.HasPrefix(full, "strconv.") {
		return nil, false
	}
	str := func(i int) (string, bool) {
		if i >= len(args) {
			return "", false
		}
		s, ok := args[i].(*StringV)
		if !ok || s.isSym {
			return "", false
		}
		return s.lit, true
	}
	num := func(i int) (int, bool) {
		if i >= len(args) {
			return 0, false
		}
		t, ok := args[i].(*Term)
		if !ok || t.op != OpConst {
			return 0, false
		}
		return int(sx(t.val, t.w)), true
	}
	S := func(x string) (Value, bool) { return &StringV{lit: x}, true }
	B := func(x bool) (Value, bool) { return e.st.Bool(x), true }
	I := func(x int) (Value, bool) { return e.c64(int64(x)), true }
	a, okA := str(0)
	b, okB := str(1)
	c, okC := str(2)
	switch full {
	case "strings.ReplaceAll":
		if okA && okB && okC {
			return S(strings.ReplaceAll(a, b, c))
		}
	case "strings.Replace":
		if n, ok := num(3); ok && okA && okB && okC {
			return S(strings.Replace(a, b, c, n))
		}
	case "strings.ToUpper":
		if okA {
			return S(strings.ToUpper(a))
		}
	case "strings.ToLower":
		if okA {
			return S(strings.ToLower(a))
		}
	case "strings.TrimSpace":
		if okA {
			return S(strings.TrimSpace(a))
		}
	case "strings.Trim":
		if okA && okB {
			return S(strings.Trim(a, b))
		}
	case "strings.TrimLeft":
		if okA && okB {
			return S(strings.TrimLeft(a, b))
		}
	case "strings.TrimRight":
		if okA && okB {
			return S(strings.TrimRight(a, b))
		}
	case "strings.TrimPrefix":
		if okA && okB {
			return S(strings.TrimPrefix(a, b))
		}
	case "strings.TrimSuffix":
		if okA && okB {
			return S(strings.TrimSuffix(a, b))
		}
	case "strings.Repeat":
		if n, ok := num(1); ok && okA && n >= 0 && n < 1<<16 {
			return S(strings.Repeat(a, n))
		}
	case "strings.HasPrefix":
		if okA && okB {
			return B(strings.HasPrefix(a, b))
		}
	case "strings.HasSuffix":
		if okA && okB {
			return B(strings.HasSuffix(a, b))
		}
	case "strings.Contains":
		if okA && okB {
			return B(strings.Contains(a, b))
		}
	case "strings.EqualFold":
		if okA && okB {
			return B(strings.EqualFold(a, b))
		}
	case "strings.Index":
		if okA && okB {
			return I(strings.Index(a, b))
		}
	case "strings.LastIndex":
		if okA && okB {
			return I(strings.LastIndex(a, b))
		}
	case "strings.Count":
		if okA && okB {
			return I(strings.Count(a, b))
		}
	case "strings.IndexByte":
		if n, ok := num(1); ok && okA {
			return I(strings.IndexByte(a, byte(n)))
		}
	case "strconv.Itoa":
		if n, ok := num(0); ok {
			return S(strconv.Itoa(n))
		}
	case "strconv.Quote":
		if okA {
			return S(strconv.Quote(a))
		}
	}
	return nil, false
}

func (e *Exec) stub(fn *ssa.Function, full string, args []Value) (Value, bool) {
	if r, ok := e.pureStrings(full, args); ok {
		return r, true
	}
	if r, ok := e.binaryStub(full, args); ok {
		return r, true
	}
	switch full {
	case "log.Printf", "(*log.Logger).Printf", "log.Println", "log.Print":
		e.events = append(e.events, Event{Kind: "warn"})
		return nil, true
	case "math/bits.OnesCount8", "math/bits.OnesCount16", "math/bits.OnesCount32", "math/bits.OnesCount64", "math/bits.OnesCount":
		x := args[0].(*Term)
		n := e.c64(0)
		for i := 0; i < x.w; i++ {
			n = e.st.Bin(OpAdd, n, e.st.Zext(64, e.st.Extract(i, i, x)))
		}
		return n, true
	case "flag.StringVar", "flag.UintVar", "flag.BoolVar", "flag.IntVar":
		p := args[0].(*PtrV)
		e.store(p, args[2])
		e.cmd.regs = append(e.cmd.regs, flagReg{p, e.constString(args[1])})
		return nil, true
	case "flag.Parse":
		for _, r := range e.cmd.regs {
			if v, ok := e.cmd.flags[r.name]; ok {
				e.store(r.p, v)
			}
		}
		return nil, true
	case "os.ReadFile":
		if e.cmd.file == nil {
			e.unsupported("os.ReadFile without vCmdFile")
		}
		e.cmd.readName = args[0].(*StringV)
		if e.cmd.trunc {
			// in place and the output was created (truncated) first: nothing left to read
			return TupleV{&SliceV{obj: e.cmd.file.obj, path: e.cmd.file.path, off: e.cmd.file.off, len: e.c64(0), cap: e.c64(0)}, &IfaceV{}}, true
		}
		return TupleV{e.cmd.file, &IfaceV{}}, true
	case "os.OpenFile":
		// write-only create: with O_TRUNC it is os.Create; without, whatever an
		// existing longer file held beyond the written bytes survives
		fl, ok := args[1].(*Term)
		if !ok || fl.op != OpConst {
			e.unsupported("os.OpenFile with non-constant flags")
		}
		const oCreate, oTrunc, oAppend, oRdwr = 0x40, 0x200, 0x400, 0x2
		if fl.val&oCreate == 0 || fl.val&oAppend != 0 || fl.val&oRdwr != 0 || fl.val&0x1 == 0 {
			e.unsupported(fmt.Sprintf("os.OpenFile flags %#x", fl.val))
		}
		if fl.val&oTrunc == 0 {
			e.cmd.noTrunc = true
		} else if e.cmd.inPlace {
			e.cmd.trunc = true
		}
		e.objSeq++
		return TupleV{&PtrV{obj: e.newObj(&OpaqueV{kind: "file", id: e.objSeq}, "file")}, &IfaceV{}}, true
	case "os.Open":
		// the input file of vCmdFile, read sequentially
		if e.cmd.file == nil {
			e.unsupported("os.Open without vCmdFile")
		}
		e.cmd.readName = args[0].(*StringV)
		if e.cmd.trunc {
			f := *e.cmd.file
			f.len, f.cap = e.c64(0), e.c64(0)
			e.cmd.file = &f
		}
		e.objSeq++
		return TupleV{&PtrV{obj: e.newObj(&OpaqueV{kind: "file", id: e.objSeq, data: &inFile{pos: e.c64(0)}}, "input file")}, &IfaceV{}}, true
	case "(*os.File).Stat":
		in := e.inFileOf(args[0])
		if in == nil {
			e.unsupported("Stat of an output file")
		}
		e.objSeq++
		return TupleV{&IfaceV{t: types.Typ[types.UnsafePointer], v: &OpaqueV{kind: "fileinfo", id: e.objSeq}}, &IfaceV{}}, true
	case "(*os.File).Read", "io.ReadFull", "io.ReadAtLeast":
		in := e.inFileOf(args[0])
		if in == nil {
			e.unsupported(full + " on something other than the input file")
		}
		buf := args[1].(*SliceV)
		f := e.cmd.file
		rem := e.st.Bin(OpSub, f.len, in.pos)
		min := buf.len // bytes needed for a nil error
		if full == "io.ReadAtLeast" {
			min = e.toIdx(args[2].(*Term), types.Typ[types.Int])
		}
		if buf.len.op == OpConst && buf.len.val == 0 {
			return TupleV{e.c64(0), &IfaceV{}}, true
		}
		if e.Branch(e.st.Eq(rem, e.c64(0))) {
			return TupleV{e.c64(0), e.sentinel("io", "EOF")}, true
		}
		n := buf.len
		var err Value = &IfaceV{}
		if e.Branch(e.st.Cmp(OpUlt, rem, buf.len)) {
			// contract: a read of a regular file returns everything that is left
			n = rem
			if full != "(*os.File).Read" && e.Branch(e.st.Cmp(OpUlt, rem, min)) {
				err = e.sentinel("io", "ErrUnexpectedEOF")
			}
		}
		db := e.sliceBytes(buf)
		db.arr = e.st.ArrCopy(db.arr, e.sliceBytes(f).arr, buf.off, e.st.Bin(OpAdd, f.off, in.pos), n)
		in.pos = e.st.Bin(OpAdd, in.pos, n)
		return TupleV{n, err}, true
	case "io.ReadAll":
		in := e.inFileOf(args[0])
		if in == nil {
			e.unsupported("io.ReadAll on something other than the input file")
		}
		f := e.cmd.file
		rem := e.st.Bin(OpSub, f.len, in.pos)
		r := &SliceV{obj: f.obj, path: f.path, off: e.st.Bin(OpAdd, f.off, in.pos), len: rem, cap: rem}
		in.pos = f.len
		return TupleV{r, &IfaceV{}}, true
	case "io.Copy", "(*bufio.Writer).ReadFrom", "(*os.File).ReadFrom":
		si := 1
		in := e.inFileOf(args[1])
		if in == nil {
			e.unsupported(full + ": source is not the input file")
		}
		f := e.cmd.file
		rem := e.st.Bin(OpSub, f.len, in.pos)
		seg := outSeg{e.sliceBytes(f).arr, e.st.Bin(OpAdd, f.off, in.pos), rem}
		in.pos = f.len
		_ = si
		switch e.outKind(args[0]) {
		case "bufio":
			e.cmd.pending = append(e.cmd.pending, seg)
			e.cmd.flushed = false
		case "file":
			e.cmd.out = append(e.cmd.out, seg)
		default:
			e.unsupported(full + ": destination is neither the output file nor its bufio.Writer")
		}
		return TupleV{rem, &IfaceV{}}, true
	case "(*os.File).Write":
		// unbuffered write to the output file
		if e.inFileOf(args[0]) != nil {
			e.unsupported("write to the input file")
		}
		sl := args[1].(*SliceV)
		if sl.obj != nil {
			bb := e.sliceBytes(sl)
			// buffered data not flushed yet would come later in the file: keep the order honest
			if len(e.cmd.pending) > 0 {
				e.unsupported("direct file write while the bufio.Writer holds unflushed data")
			}
			e.cmd.out = append(e.cmd.out, outSeg{bb.arr, sl.off, sl.len})
		}
		return TupleV{sl.len, &IfaceV{}}, true
	case "os.Create":
		if e.cmd.inPlace {
			e.cmd.trunc = true
		}
		e.objSeq++
		return TupleV{&PtrV{obj: e.newObj(&OpaqueV{kind: "file", id: e.objSeq}, "file")}, &IfaceV{}}, true
	case "(*os.File).Close":
		if e.inFileOf(args[0]) == nil {
			e.cmd.closed = true
		}
		return &IfaceV{}, true
	case "bufio.NewWriter", "bufio.NewWriterSize":
		e.objSeq++
		return &PtrV{obj: e.newObj(&OpaqueV{kind: "bufio", id: e.objSeq}, "bufio")}, true
	case "(*bufio.Writer).WriteByte":
		arr := e.st.StoreArr(e.st.ConstArr(bytesSort, 0), e.c64(0), args[1].(*Term))
		e.cmd.pending = append(e.cmd.pending, outSeg{arr, e.c64(0), e.c64(1)})
		e.cmd.flushed = false
		return &IfaceV{}, true
	case "(*bufio.Writer).Write":
		sl := args[1].(*SliceV)
		if sl.obj != nil {
			bb := e.sliceBytes(sl)
			e.cmd.pending = append(e.cmd.pending, outSeg{bb.arr, sl.off, sl.len})
		}
		e.cmd.flushed = false
		return TupleV{sl.len, &IfaceV{}}, true
	case "(*bufio.Writer).Flush":
		// contract: buffered data is guaranteed to reach the file only by Flush
		e.cmd.out = append(e.cmd.out, e.cmd.pending...)
		e.cmd.pending = nil
		e.cmd.flushed = true
		return &IfaceV{}, true
	case "log.New":
		e.objSeq++
		return &PtrV{obj: e.newObj(&OpaqueV{kind: "logger", id: e.objSeq}, "logger")}, true
	case "fmt.Errorf":
		e.objSeq++
		return &IfaceV{t: types.Typ[types.UnsafePointer], v: &OpaqueV{kind: "error", id: e.objSeq, data: args[0]}}, true
	case "errors.Is":
		return e.valueEq(args[0], args[1]), true
	case "math/bits.Len", "math/bits.Len8", "math/bits.Len16", "math/bits.Len32", "math/bits.Len64":
		// minimum number of bits to represent x: position of the highest set bit + 1
		x := args[0].(*Term)
		r := e.c64(0)
		for i := 0; i < x.w; i++ {
			r = e.st.Ite(e.st.Eq(e.st.Extract(i, i, x), e.st.Const(1, 1)), e.c64(int64(i+1)), r)
		}
		return r, true
	case "math/bits.TrailingZeros", "math/bits.TrailingZeros8", "math/bits.TrailingZeros16", "math/bits.TrailingZeros32", "math/bits.TrailingZeros64":
		x := args[0].(*Term)
		r := e.c64(int64(x.w))
		for i := x.w - 1; i >= 0; i-- {
			r = e.st.Ite(e.st.Eq(e.st.Extract(i, i, x), e.st.Const(1, 1)), e.c64(int64(i)), r)
		}
		return r, true
	case "math/bits.LeadingZeros", "math/bits.LeadingZeros8", "math/bits.LeadingZeros16", "math/bits.LeadingZeros32", "math/bits.LeadingZeros64":
		x := args[0].(*Term)
		r := e.c64(int64(x.w))
		for i := 0; i < x.w; i++ {
			r = e.st.Ite(e.st.Eq(e.st.Extract(i, i, x), e.st.Const(1, 1)), e.c64(int64(x.w-1-i)), r)
		}
		return r, true
	case "math/bits.RotateLeft8", "math/bits.RotateLeft16", "math/bits.RotateLeft32", "math/bits.RotateLeft64":
		x := args[0].(*Term)
		k := args[1].(*Term) // int
		w := x.w
		kk := e.st.Bin(OpAnd, e.st.Extract(w-1, 0, e.st.Zext(64, k)), e.st.Const(w, uint64(w-1)))
		if k.w < w {
			kk = e.st.Bin(OpAnd, e.st.Zext(w, k), e.st.Const(w, uint64(w-1)))
		}
		inv := e.st.Bin(OpAnd, e.st.Bin(OpSub, e.st.Const(w, uint64(w)), kk), e.st.Const(w, uint64(w-1)))
		return e.st.Bin(OpOr, e.st.Bin(OpShl, x, kk), e.st.Bin(OpLshr, x, inv)), true
	case "errors.New":
		e.objSeq++
		return &IfaceV{t: types.Typ[types.UnsafePointer], v: &OpaqueV{kind: "error", id: e.objSeq, data: args[0]}}, true
	case "context.WithCancel":
		e.objSeq++
		child := &OpaqueV{kind: "ctx", id: e.objSeq, data: args[0]}
		pid := 0
		if pi, ok := args[0].(*IfaceV); ok {
			if po, ok := pi.v.(*OpaqueV); ok {
				pid = po.id
			}
		}
		e.ctxs[child.id] = &ctxInfo{parent: pid}
		e.events = append(e.events, Event{Kind: "ctx.WithCancel", Args: []Value{child}})
		return TupleV{&IfaceV{t: types.Typ[types.UnsafePointer], v: child}, &FuncV{ext: "cancel", data: child}}, true
	case "context.WithTimeout", "context.WithDeadline":
		// a cancellable child that also carries a deadline; the deadline itself is
		// far away: within the bound it never passes (time is not advanced)
		e.objSeq++
		child := &OpaqueV{kind: "ctx", id: e.objSeq, data: args[0]}
		pid := 0
		if pi, ok := args[0].(*IfaceV); ok {
			if po, ok := pi.v.(*OpaqueV); ok {
				pid = po.id
			}
		}
		e.ctxs[child.id] = &ctxInfo{parent: pid, deadline: true}
		e.events = append(e.events, Event{Kind: "ctx.WithCancel", Args: []Value{child}})
		return TupleV{&IfaceV{t: types.Typ[types.UnsafePointer], v: child}, &FuncV{ext: "cancel", data: child}}, true
	case "time.Until", "time.Since":
		return e.zero(fn.Signature.Results().At(0).Type()), true
	case "time.Now":
		return e.zero(fn.Signature.Results().At(0).Type()), true
	case "(time.Time).Sub", "(time.Time).Add", "(time.Time).Before", "(time.Time).After", "(time.Time).IsZero":
		return e.zero(fn.Signature.Results().At(0).Type()), true
	case "time.AfterFunc", "time.NewTimer":
		// the timer is armed for a far deadline and does not fire within the bound
		e.objSeq++
		e.events = append(e.events, Event{Kind: "timer-armed"})
		return &PtrV{obj: e.newObj(&OpaqueV{kind: "timer", id: e.objSeq}, "timer")}, true
	case "(*time.Timer).Stop", "(*time.Timer).Reset":
		e.events = append(e.events, Event{Kind: "timer-stopped"})
		return e.st.True, true
	case "context.Background", "context.TODO":
		e.objSeq++
		e.ctxs[e.objSeq] = &ctxInfo{}
		return &IfaceV{t: types.Typ[types.UnsafePointer], v: &OpaqueV{kind: "ctx", id: e.objSeq}}, true
	case "fmt.Fprintf", "fmt.Fprint":
		return e.fprintf(full == "fmt.Fprintf", args), true
	case "io.WriteString":
		w := args[0].(*IfaceV)
		arr, n := e.stringArr(args[1].(*StringV))
		o := e.newObj(&BytesV{arr: arr, n: -1}, "io.WriteString")
		return e.callMethod(w, "Write", []Value{&SliceV{obj: o, off: e.c64(0), len: n, cap: n}}), true
	case "reflect.DeepEqual":
		return e.deepEqual(args[0], args[1]), true
	case "sync/atomic.LoadInt32":
		p := args[0].(*PtrV)
		e.events = append(e.events, Event{Kind: "atomic.Load", Args: []Value{p}})
		if len(e.threads) > 0 {
			e.access(p, false, true, "atomic.LoadInt32")
			if ls := e.locs[locKey(p)]; ls != nil {
				e.acquire(ls.rel)
			}
		}
		return e.load(p), true
	case "sync/atomic.StoreInt32":
		p := args[0].(*PtrV)
		e.events = append(e.events, Event{Kind: "atomic.Store", Args: []Value{p, args[1]}})
		if len(e.threads) > 0 {
			e.access(p, true, true, "atomic.StoreInt32")
			ls := e.locs[locKey(p)]
			ls.rel = e.release(ls.rel)
		}
		e.store(p, args[1])
		return nil, true
	}
	// typed atomics: (*atomic.Bool|Int32|Int64|Uint32|Uint64|Uintptr).Load/Store/Add/Swap/CompareAndSwap
	if strings.HasPrefix(full, "(*sync/atomic.") {
		if r, ok := e.typedAtomic(fn, full, args); ok {
			return r, true
		}
	}
	if full == "context.AfterFunc" {
		return e.afterFunc(args), true
	}
	if strings.HasPrefix(full, "(*sync.Map).") {
		return e.syncMap(fn, full[len("(*sync.Map)."):], args), true
	}
	if full == "(*sync.Once).Do" {
		p := args[0].(*PtrV)
		k := "once:" + locKey(p)
		if e.onceDone[k] {
			return nil, true
		}
		e.onceDone[k] = true
		e.inOnce++
		e.invoke(args[1].(*FuncV), nil)
		e.inOnce--
		return nil, true
	}
	if strings.HasPrefix(full, "(*sync.WaitGroup).") {
		p := args[0].(*PtrV)
		k := "wg:" + locKey(p)
		switch full[len("(*sync.WaitGroup)."):] {
		case "Add":
			e.wgCount[k] += int(e.constInt(args[1]))
			e.ctxRelKey(k, true)
		case "Done":
			e.wgCount[k]--
			e.ctxRelKey(k, true)
			e.wake()
		case "Wait":
			e.block(func() bool { return e.wgCount[k] <= 0 }, "WaitGroup.Wait")
			e.ctxRelKey(k, false)
		}
		return nil, true
	}
	if strings.HasPrefix(full, "(*sync.Mutex).") || strings.HasPrefix(full, "(*sync.RWMutex).") {
		// lock = acquire, unlock = release on the mutex object
		if p, ok := args[0].(*PtrV); ok && p.obj != nil && len(e.threads) > 0 {
			k := "mutex:" + locKey(p)
			ls := e.locs[k]
			if ls == nil {
				ls = &locState{}
				e.locs[k] = ls
			}
			if strings.HasSuffix(full, "Unlock") {
				ls.rel = e.release(ls.rel)
			} else {
				e.acquire(ls.rel)
			}
		}
		return nil, true
	}
	return nil, false
}

func (e *Exec) harnessFunc(name string) *ssa.Function {
	if e.harnessPkg == nil {
		return nil
	}
	return e.harnessPkg.Func(name)
}

// extCall handles FuncV values that are not SSA functions.
func (e *Exec) extCall(fv *FuncV, args []Value) Value {
	switch {
	case fv.ext == "afterfunc":
		d := fv.data.([]interface{})
		co, f, st := d[0].(*OpaqueV), d[1].(*FuncV), d[2].(*afterState)
		e.block(func() bool { return e.ctxCause(co.id) != 0 || st.stopped }, "AfterFunc waiting for its context")
		if st.stopped {
			return nil
		}
		st.started = true
		e.acquire(e.ctxRel[e.ctxCause(co.id)])
		e.invoke(f, nil)
		return nil
	case fv.ext == "afterfunc-stop":
		st := fv.data.(*afterState)
		if st.started || st.stopped {
			return e.st.False
		}
		st.stopped = true
		e.wake()
		return e.st.True
	case fv.ext == "cancel":
		c := fv.data.(*OpaqueV)
		e.events = append(e.events, Event{Kind: "cancel", Args: []Value{c}})
		if ci := e.ctxs[c.id]; ci != nil {
			ci.cancelled = true
		}
		e.ctxRel[c.id] = e.release(e.ctxRel[c.id])
		e.wake()
		return nil
	case fv.ext == "opaque:fileinfo.Size":
		// size of the input file
		return e.cmd.file.len
	case strings.HasPrefix(fv.ext, "opaque:ctx."):
		m := fv.ext[len("opaque:ctx."):]
		op := fv.data.(*OpaqueV)
		switch m {
		case "Done":
			return &OpaqueV{kind: "donechan", data: op}
		case "Deadline":
			has := false
			for id := op.id; id != 0; {
				ci := e.ctxs[id]
				if ci == nil {
					break
				}
				if ci.deadline {
					has = true
				}
				id = ci.parent
			}
			return TupleV{e.zero(e.timeType()), e.st.Bool(has)}
		case "Value":
			return &IfaceV{}
		case "Err":
			e.events = append(e.events, Event{Kind: "ctx.Err", Args: []Value{op}})
			cause := e.ctxCause(op.id)
			if cause == 0 {
				return &IfaceV{}
			}
			return &IfaceV{t: types.Typ[types.UnsafePointer], v: &OpaqueV{kind: "ctxerr", id: cause, data: op}}
		}
	}
	e.unsupported("external call " + fv.ext)
	return nil
}

// deepEqual: reflect.DeepEqual's documented contract for the value shapes the
// repository passes (maps with bit-vector keys; scalars; nil interfaces).
func (e *Exec) deepEqual(a, b Value) *Term {
	ia, ok1 := a.(*IfaceV)
	ib, ok2 := b.(*IfaceV)
	if !ok1 || !ok2 {
		e.unsupported("reflect.DeepEqual on non-interface arguments")
	}
	if ia.t == nil || ib.t == nil {
		return e.st.Bool(ia.t == nil && ib.t == nil)
	}
	if !types.Identical(ia.t, ib.t) {
		return e.st.False
	}
	ma, ok1 := ia.v.(*MapV)
	mb, ok2 := ib.v.(*MapV)
	if ok1 && ok2 {
		if ma.m == nil || mb.m == nil {
			return e.st.Bool(ma.m == nil && mb.m == nil)
		}
		if ma.m == mb.m {
			return e.st.True
		}
		// every present key is among the candidate keys of its map: comparing
		// presence and value at the union of both candidate lists is exact
		r := e.st.True
		for _, c := range append(append([]*Term(nil), ma.m.cands...), mb.m.cands...) {
			pa, pb := e.st.Select(ma.m.present, c), e.st.Select(mb.m.present, c)
			same := e.st.Eq(pa, pb)
			if ma.m.vw > 0 {
				same = e.st.And(same, e.st.Or(e.st.Not(pa), e.st.Eq(e.st.Select(ma.m.vals, c), e.st.Select(mb.m.vals, c))))
			}
			r = e.st.And(r, same)
		}
		return r
	}
	if ta, ok := ia.v.(*Term); ok {
		return e.st.Eq(ta, ib.v.(*Term))
	}
	e.unsupported("reflect.DeepEqual on this value shape")
	return nil
}

// callMethod invokes a method on an interface value (dynamic dispatch as the
// interpreter does for invoke instructions).
func (e *Exec) callMethod(iv *IfaceV, name string, args []Value) Value {
	if iv.t == nil {
		e.mustHold(e.st.False, "nil dereference", "method call on nil interface "+name)
	}
	ms := e.prog.MethodSets.MethodSet(iv.t)
	var sel *types.Selection
	for i := 0; i < ms.Len(); i++ {
		if ms.At(i).Obj().Name() == name {
			sel = ms.At(i)
		}
	}
	if sel == nil {
		e.unsupported("method " + name + " not found on " + iv.t.String())
	}
	fn := e.prog.MethodValue(sel)
	return e.callFunc(fn, append([]Value{iv.v}, args...), nil)
}

// utf8Encode appends the UTF-8 encoding of rune r (a term of any width) to
// out; the encoded length depends on the value, so the path forks.
func (e *Exec) utf8Encode(r *Term, out []*Term) []*Term {
	r32 := e.st.Zext(32, r)
	if r.w > 32 {
		r32 = e.st.Extract(31, 0, r)
	}
	c := func(v uint64) *Term { return e.st.Const(32, v) }
	b8 := func(t *Term) *Term { return e.st.Extract(7, 0, t) }
	sh := func(t *Term, n uint64) *Term { return e.st.Bin(OpLshr, t, c(n)) }
	and := func(t *Term, m uint64) *Term { return e.st.Bin(OpAnd, t, c(m)) }
	or := func(t *Term, m uint64) *Term { return e.st.Bin(OpOr, t, c(m)) }
	if e.Branch(e.st.Cmp(OpUlt, r32, c(0x80))) {
		return append(out, b8(r32))
	}
	if e.Branch(e.st.Cmp(OpUlt, r32, c(0x800))) {
		return append(out, b8(or(sh(r32, 6), 0xc0)), b8(or(and(r32, 0x3f), 0x80)))
	}
	// surrogates and out-of-range values become U+FFFD
	bad := e.st.Or(e.st.And(e.st.Cmp(OpUle, c(0xd800), r32), e.st.Cmp(OpUle, r32, c(0xdfff))), e.st.Cmp(OpUlt, c(0x10ffff), r32))
	if e.Branch(bad) {
		return append(out, e.st.Const(8, 0xef), e.st.Const(8, 0xbf), e.st.Const(8, 0xbd))
	}
	if e.Branch(e.st.Cmp(OpUlt, r32, c(0x10000))) {
		return append(out, b8(or(sh(r32, 12), 0xe0)), b8(or(and(sh(r32, 6), 0x3f), 0x80)), b8(or(and(r32, 0x3f), 0x80)))
	}
	return append(out, b8(or(sh(r32, 18), 0xf0)), b8(or(and(sh(r32, 12), 0x3f), 0x80)), b8(or(and(sh(r32, 6), 0x3f), 0x80)), b8(or(and(r32, 0x3f), 0x80)))
}

// fprintf: fmt.Fprintf / fmt.Fprint for a constant format and the verbs %c, %s,
// %v/%d/%x of constants, %%; the formatted bytes reach the writer in one Write.
func (e *Exec) fprintf(withFormat bool, args []Value) Value {
	w := args[0].(*IfaceV)
	var vals []Value
	fi := 1
	format := ""
	if withFormat {
		format = e.constString(args[1])
		fi = 2
	}
	if fi < len(args) {
		if sl, ok := args[fi].(*SliceV); ok && sl.obj != nil {
			av := e.load0(&PtrV{obj: sl.obj, path: sl.path}).(*ArrayV)
			n := int(e.constInt(sl.len))
			off := int(e.constInt(sl.off))
			vals = av.e[off : off+n]
		}
	}
	var out []*Term
	lit := func(s string) {
		for i := 0; i < len(s); i++ {
			out = append(out, e.st.Const(8, uint64(s[i])))
		}
	}
	emit := func(verb byte, v Value) {
		iv, _ := v.(*IfaceV)
		if iv == nil {
			e.unsupported("fmt: operand")
		}
		switch x := iv.v.(type) {
		case *Term:
			switch {
			case verb == 'c' && x.w > 0:
				if _, signed, _ := intWidth(iv.t); signed && x.w < 32 {
					x = e.st.Sext(32, x)
				}
				out = e.utf8Encode(x, out)
			case x.op == OpConst && (verb == 'd' || verb == 'v'):
				_, signed, _ := intWidth(iv.t)
				if signed {
					lit(fmt.Sprintf("%d", sx(x.val, x.w)))
				} else {
					lit(fmt.Sprintf("%d", x.val))
				}
			case x.op == OpConst && verb == 'x':
				lit(fmt.Sprintf("%x", x.val))
			default:
				e.unsupported(fmt.Sprintf("fmt verb %%%c on a symbolic integer", verb))
			}
		case *StringV:
			if verb != 's' && verb != 'v' {
				e.unsupported("fmt verb on string")
			}
			arr, n := e.stringArr(x)
			k := int(e.constInt(n))
			for i := 0; i < k; i++ {
				out = append(out, e.st.Select(arr, e.c64(int64(i))))
			}
		default:
			e.unsupported("fmt: operand kind")
		}
	}
	if withFormat {
		ai := 0
		for i := 0; i < len(format); i++ {
			ch := format[i]
			if ch != '%' {
				out = append(out, e.st.Const(8, uint64(ch)))
				continue
			}
			i++
			if i >= len(format) {
				e.unsupported("fmt: dangling %")
			}
			if format[i] == '%' {
				out = append(out, e.st.Const(8, '%'))
				continue
			}
			if ai >= len(vals) {
				e.unsupported("fmt: missing operand")
			}
			// flags, width, precision (only for %s)
			minus := false
			width, prec := -1, -1
			for i < len(format) && format[i] == '-' {
				minus = true
				i++
			}
			for i < len(format) && format[i] >= '0' && format[i] <= '9' {
				if width < 0 {
					width = 0
				}
				width = width*10 + int(format[i]-'0')
				i++
			}
			if i < len(format) && format[i] == '.' {
				i++
				prec = 0
				for i < len(format) && format[i] >= '0' && format[i] <= '9' {
					prec = prec*10 + int(format[i]-'0')
					i++
				}
			}
			if i >= len(format) {
				e.unsupported("fmt: truncated verb")
			}
			if minus || width >= 0 || prec >= 0 {
				if format[i] != 's' {
					e.unsupported("fmt: width/precision on %" + string(format[i]))
				}
				out = e.fmtString(vals[ai], minus, width, prec, out)
			} else {
				switch format[i] {
				case 'c', 's', 'd', 'v', 'x':
					emit(format[i], vals[ai])
				default:
					e.unsupported("fmt verb %" + string(format[i]))
				}
			}
			ai++
		}
	} else {
		for _, v := range vals {
			emit('v', v)
		}
	}
	arr := e.st.ConstArr(bytesSort, 0)
	for i, b := range out {
		arr = e.st.StoreArr(arr, e.c64(int64(i)), b)
	}
	n := e.c64(int64(len(out)))
	o := e.newObj(&BytesV{arr: arr, n: -1}, "fmt buffer")
	e.callMethod(w, "Write", []Value{&SliceV{obj: o, off: e.c64(0), len: n, cap: n}})
	return TupleV{n, &IfaceV{}}
}

// runeLen forks on the UTF-8 shape of the rune starting at byte i of a string
// of n bytes (Go's decoding: an invalid or truncated sequence is one rune of
// one byte).
func (e *Exec) runeLen(arr *Term, i, n int) int {
	at := func(k int) *Term { return e.st.Select(arr, e.c64(int64(k))) }
	c8 := func(v uint64) *Term { return e.st.Const(8, v) }
	in := func(t *Term, lo, hi uint64) *Term {
		return e.st.And(e.st.Cmp(OpUle, c8(lo), t), e.st.Cmp(OpUle, t, c8(hi)))
	}
	b0 := at(i)
	if e.Branch(e.st.Cmp(OpUlt, b0, c8(0x80))) {
		return 1
	}
	if i+1 < n {
		if e.Branch(e.st.And(in(b0, 0xc2, 0xdf), in(at(i+1), 0x80, 0xbf))) {
			return 2
		}
	}
	if i+2 < n {
		b1 := at(i + 1)
		second := e.st.Or(e.st.Or(e.st.And(e.st.Eq(b0, c8(0xe0)), in(b1, 0xa0, 0xbf)), e.st.And(in(b0, 0xe1, 0xec), in(b1, 0x80, 0xbf))),
			e.st.Or(e.st.And(e.st.Eq(b0, c8(0xed)), in(b1, 0x80, 0x9f)), e.st.And(in(b0, 0xee, 0xef), in(b1, 0x80, 0xbf))))
		if e.Branch(e.st.And(second, in(at(i+2), 0x80, 0xbf))) {
			return 3
		}
	}
	if i+3 < n {
		b1 := at(i + 1)
		second := e.st.Or(e.st.And(e.st.Eq(b0, c8(0xf0)), in(b1, 0x90, 0xbf)),
			e.st.Or(e.st.And(in(b0, 0xf1, 0xf3), in(b1, 0x80, 0xbf)), e.st.And(e.st.Eq(b0, c8(0xf4)), in(b1, 0x80, 0x8f))))
		if e.Branch(e.st.And(second, e.st.And(in(at(i+2), 0x80, 0xbf), in(at(i+3), 0x80, 0xbf)))) {
			return 4
		}
	}
	return 1
}

// fmtString: %[-][width][.prec]s — precision and width count runes.
func (e *Exec) fmtString(v Value, minus bool, width, prec int, out []*Term) []*Term {
	iv, _ := v.(*IfaceV)
	if iv == nil {
		e.unsupported("fmt: operand")
	}
	var arr, n *Term
	switch x := iv.v.(type) {
	case *StringV:
		arr, n = e.stringArr(x)
	case *SliceV:
		if !isByteSlice(iv.t) {
			e.unsupported("fmt %s on non-byte slice")
		}
		bb := e.sliceBytes(x)
		if x.off.op != OpConst || x.off.val != 0 {
			e.unsupported("fmt %s on offset slice")
		}
		arr, n = bb.arr, x.len
	default:
		e.unsupported("fmt %s operand kind")
	}
	k := int(e.constInt(n))
	// walk runes
	pos, runes := 0, 0
	for pos < k && (prec < 0 || runes < prec) {
		pos += e.runeLen(arr, pos, k)
		runes++
	}
	var body []*Term
	for i := 0; i < pos; i++ {
		body = append(body, e.st.Select(arr, e.c64(int64(i))))
	}
	pad := 0
	if width > runes {
		pad = width - runes
	}
	sp := e.st.Const(8, ' ')
	if !minus {
		for i := 0; i < pad; i++ {
			out = append(out, sp)
		}
	}
	out = append(out, body...)
	if minus {
		for i := 0; i < pad; i++ {
			out = append(out, sp)
		}
	}
	return out
}

// timeType finds time.Time among the loaded packages (for ctx.Deadline()).
func (e *Exec) timeType() types.Type {
	for _, p := range e.prog.AllPackages() {
		if p.Pkg.Path() == "time" {
			if t := p.Type("Time"); t != nil {
				return t.Type()
			}
		}
	}
	e.unsupported("package time not loaded (ctx.Deadline)")
	return nil
}

// libStub: the few library internals that are not plain Go.
func (e *Exec) libStub(fn *ssa.Function, args []Value) (Value, bool) {
	name := fn.Name()
	if o := fn.Origin(); o != nil {
		name = o.Name()
	}
	switch name {
	case "overlaps":
		// slices.overlaps(a, b): do the two slices share memory?
		a, ok1 := args[0].(*SliceV)
		b, ok2 := args[1].(*SliceV)
		if !ok1 || !ok2 {
			e.unsupported("slices.overlaps operands")
		}
		if a.obj == nil || b.obj == nil || a.obj != b.obj || !samePath(a.path, b.path) {
			return e.st.False, true
		}
		if a.len.op == OpConst && a.len.val == 0 || b.len.op == OpConst && b.len.val == 0 {
			return e.st.False, true
		}
		// a.off <= b.off+b.len-1 && b.off <= a.off+a.len-1
		one := e.c64(1)
		r := e.st.And(e.st.Cmp(OpSle, a.off, e.st.Bin(OpSub, e.st.Bin(OpAdd, b.off, b.len), one)),
			e.st.Cmp(OpSle, b.off, e.st.Bin(OpSub, e.st.Bin(OpAdd, a.off, a.len), one)))
		return r, true
	}
	return nil, false
}

// ctxRelKey: release (rel=true) or acquire on a named synchronisation object.
func (e *Exec) ctxRelKey(k string, rel bool) {
	if len(e.threads) == 0 {
		return
	}
	ls := e.locs[k]
	if ls == nil {
		ls = &locState{}
		e.locs[k] = ls
	}
	if rel {
		ls.rel = e.release(ls.rel)
	} else {
		e.acquire(ls.rel)
	}
}

// typedAtomic: the value lives in the field "v" of the atomic.* struct.
func (e *Exec) typedAtomic(fn *ssa.Function, full string, args []Value) (Value, bool) {
	i := strings.Index(full, ").")
	method := full[i+2:]
	p, ok := args[0].(*PtrV)
	if !ok || p.obj == nil {
		return nil, false
	}
	st, ok := fn.Signature.Recv().Type().(*types.Pointer).Elem().Underlying().(*types.Struct)
	if !ok {
		return nil, false
	}
	fi := -1
	for k := 0; k < st.NumFields(); k++ {
		if st.Field(k).Name() == "v" {
			fi = k
		}
	}
	if fi < 0 {
		return nil, false
	}
	fp := &PtrV{obj: p.obj, path: extendPath(p.path, pathElem{i: fi})}
	isBool := strings.Contains(full, "atomic.Bool)")
	cur := func() *Term {
		v := e.load(fp).(*Term)
		if isBool { // stored as uint32
			return e.st.Not(e.st.Eq(v, e.st.Const(v.w, 0)))
		}
		return v
	}
	put := func(t *Term) {
		if isBool {
			w, _, _ := intWidth(st.Field(fi).Type())
			t = e.st.Ite(t, e.st.Const(w, 1), e.st.Const(w, 0))
		}
		e.store(fp, t)
	}
	sync := func(write bool) {
		if len(e.threads) > 0 {
			e.access(fp, write, true, "atomic."+method)
			ls := e.locs[locKey(fp)]
			if write {
				ls.rel = e.release(ls.rel)
			} else {
				e.acquire(ls.rel)
			}
		}
	}
	// footprint: a package-level atomic that is only ever stored to / added to with
	// the result discarded is a statistic; one that is also read can carry
	// information from one CPU to another
	if strings.HasPrefix(p.obj.name, "global:") {
		g := p.obj.name[7:]
		switch {
		case method == "Load":
			e.globalAtomR[g] = true
		case method == "Store" || (method == "Add" && e.callResultUnused):
			e.globalAtomW[g] = true
		default:
			e.globalW[g] = true
		}
	}
	switch method {
	case "Load":
		e.events = append(e.events, Event{Kind: "atomic.Load"})
		sync(false)
		return cur(), true
	case "Store":
		e.events = append(e.events, Event{Kind: "atomic.Store"})
		sync(true)
		put(args[1].(*Term))
		return nil, true
	case "Swap":
		sync(false)
		old := cur()
		sync(true)
		put(args[1].(*Term))
		return old, true
	case "Add":
		sync(false)
		n := e.st.Bin(OpAdd, cur(), args[1].(*Term))
		sync(true)
		put(n)
		return n, true
	case "CompareAndSwap":
		sync(false)
		c := cur()
		var eq *Term
		if isBool {
			eq = e.st.Eq(c, args[1].(*Term))
		} else {
			eq = e.st.Eq(c, args[1].(*Term))
		}
		if e.Branch(eq) {
			sync(true)
			put(args[2].(*Term))
			return e.st.True, true
		}
		return e.st.False, true
	}
	return nil, false
}

// afterFunc: context.AfterFunc(ctx, f) — f runs in its own goroutine once ctx
// is done, unless stop() was called before.
func (e *Exec) afterFunc(args []Value) Value {
	ci := args[0].(*IfaceV)
	co, ok := ci.v.(*OpaqueV)
	if !ok {
		e.unsupported("context.AfterFunc on this context")
	}
	f := args[1].(*FuncV)
	state := &afterState{}
	t := &Thread{id: len(e.threads) + 1, fn: &FuncV{ext: "afterfunc", data: []interface{}{co, f, state}}}
	e.threads = append(e.threads, t)
	e.events = append(e.events, Event{Kind: "go"})
	e.forkClock()
	e.wake()
	return &FuncV{ext: "afterfunc-stop", data: state}
}

type afterState struct {
	stopped bool
	started bool
}

// syncMap: presence model of sync.Map keyed by integer keys; values are kept
// per syntactic key term.
func (e *Exec) syncMap(fn *ssa.Function, method string, args []Value) Value {
	p := args[0].(*PtrV)
	k := "syncmap:" + locKey(p)
	sm := e.syncMaps[k]
	if sm == nil {
		sm = &syncMapState{present: e.st.ConstArr(ArrSort(64, 0), 0), vals: map[int]Value{}}
		e.syncMaps[k] = sm
	}
	if strings.HasPrefix(p.obj.name, "global:") {
		if method != "Load" && method != "Range" {
			e.globalW[p.obj.name[7:]] = true
		}
	}
	key := func(v Value) *Term {
		iv, ok := v.(*IfaceV)
		if !ok {
			e.unsupported("sync.Map key")
		}
		if sv, ok := iv.v.(*StructV); ok {
			// a small struct of scalars: pack the fields into one 64-bit key
			var packed *Term
			w := 0
			for _, f := range sv.f {
				ft, ok := f.(*Term)
				if !ok {
					e.unsupported("sync.Map key: struct field kind")
				}
				if ft.w == 0 {
					ft = e.st.Ite(ft, e.st.Const(8, 1), e.st.Const(8, 0))
				}
				w += ft.w
				if packed == nil {
					packed = ft
				} else {
					packed = e.st.Concat(packed, ft)
				}
			}
			if packed == nil || w > 64 {
				e.unsupported("sync.Map key: struct too wide")
			}
			return e.st.Zext(64, packed)
		}
		t, ok := iv.v.(*Term)
		if !ok || t.w == 0 {
			e.unsupported("sync.Map key kind")
		}
		_, signed, _ := intWidth(iv.t)
		if signed {
			return e.st.Sext(64, t)
		}
		return e.st.Zext(64, t)
	}
	e.ctxRelKey(k, false)
	defer e.ctxRelKey(k, true)
	switch method {
	case "Load":
		kt := key(args[1])
		ok := e.st.Select(sm.present, kt)
		v, found := sm.vals[kt.id]
		if !found {
			v = &IfaceV{}
		}
		return TupleV{v, ok}
	case "Store":
		kt := key(args[1])
		sm.present = e.st.StoreArr(sm.present, kt, e.st.True)
		sm.vals[kt.id] = args[2]
		return nil
	case "LoadOrStore":
		kt := key(args[1])
		was := e.st.Select(sm.present, kt)
		sm.present = e.st.StoreArr(sm.present, kt, e.st.True)
		old, found := sm.vals[kt.id]
		if !found {
			old = args[2]
			sm.vals[kt.id] = args[2]
		}
		return TupleV{old, was}
	case "Delete":
		kt := key(args[1])
		sm.present = e.st.StoreArr(sm.present, kt, e.st.False)
		return nil
	case "LoadAndDelete":
		kt := key(args[1])
		was := e.st.Select(sm.present, kt)
		sm.present = e.st.StoreArr(sm.present, kt, e.st.False)
		v, found := sm.vals[kt.id]
		if !found {
			v = &IfaceV{}
		}
		return TupleV{v, was}
	}
	e.unsupported("sync.Map." + method)
	return nil
}

type syncMapState struct {
	present *Term
	vals    map[int]Value
}

// inFile is the read position of the command's input file.
type inFile struct{ pos *Term }

// inFileOf: the input-file state behind a *os.File (possibly inside an
// io.Reader), nil for anything else.
func (e *Exec) inFileOf(v Value) *inFile {
	if iv, ok := v.(*IfaceV); ok {
		v = iv.v
	}
	p, ok := v.(*PtrV)
	if !ok || p.obj == nil {
		return nil
	}
	if o, ok := p.obj.v.(*OpaqueV); ok && o.kind == "file" {
		if in, ok := o.data.(*inFile); ok {
			return in
		}
	}
	return nil
}

// outKind: "file" for the output *os.File, "bufio" for its bufio.Writer.
func (e *Exec) outKind(v Value) string {
	if iv, ok := v.(*IfaceV); ok {
		v = iv.v
	}
	p, ok := v.(*PtrV)
	if !ok || p.obj == nil {
		return ""
	}
	if o, ok := p.obj.v.(*OpaqueV); ok {
		if o.kind == "file" && o.data == nil {
			return "file"
		}
		return o.kind
	}
	return ""
}

// outAt: the byte at position p of the flushed output, the output being a
// sequence of segments with possibly symbolic lengths (0 beyond the end).
func (e *Exec) outAt(p *Term) *Term {
	type piece struct {
		lo, hi *Term
		v      *Term
	}
	var ps []piece
	pos := e.c64(0)
	for _, sg := range e.cmd.out {
		hi := e.st.Bin(OpAdd, pos, sg.n)
		ps = append(ps, piece{pos, hi, e.st.Select(sg.arr, e.st.Bin(OpAdd, sg.off, e.st.Bin(OpSub, p, pos)))})
		pos = hi
	}
	r := e.st.Const(8, 0)
	for i := len(ps) - 1; i >= 0; i-- {
		in := e.st.And(e.st.Cmp(OpUle, ps[i].lo, p), e.st.Cmp(OpUlt, p, ps[i].hi))
		r = e.st.Ite(in, ps[i].v, r)
	}
	return r
}

// binaryStub: encoding/binary's fixed-size byte-order helpers (exact).
// (encoding/binary.littleEndian).PutUint16 / AppendUint16 / Uint16, 32 and 64
// bit forms, both byte orders.
func (e *Exec) binaryStub(full string, args []Value) (Value, bool) {
	const pfx = "(encoding/binary."
	if !strings.HasPrefix(full, pfx) {
		return nil, false
	}
	rest := full[len(pfx):]
	little := strings.HasPrefix(rest, "littleEndian).")
	if !little && !strings.HasPrefix(rest, "bigEndian).") {
		return nil, false
	}
	m := rest[strings.Index(rest, ").")+2:]
	var kind string
	var bits int
	for _, k := range []string{"PutUint", "AppendUint", "Uint"} {
		if strings.HasPrefix(m, k) {
			kind = k
			n, err := strconv.Atoi(m[len(k):])
			if err != nil {
				return nil, false
			}
			bits = n
			break
		}
	}
	if kind == "" || (bits != 16 && bits != 32 && bits != 64) {
		return nil, false
	}
	nb := bits / 8
	byteOf := func(v *Term, i int) *Term { // i-th byte in memory order
		k := i
		if !little {
			k = nb - 1 - i
		}
		return e.st.Extract(8*k+7, 8*k, v)
	}
	// args[0] is the (empty struct) receiver
	switch kind {
	case "PutUint":
		sl := args[1].(*SliceV)
		v := args[2].(*Term)
		e.mustHold(e.st.Cmp(OpUle, e.c64(int64(nb)), sl.len), "index out of range", "binary.PutUint")
		bb := e.sliceBytes(sl)
		for i := 0; i < nb; i++ {
			bb.arr = e.st.StoreArr(bb.arr, e.st.Bin(OpAdd, sl.off, e.c64(int64(i))), byteOf(v, i))
		}
		return nil, true
	case "Uint":
		sl := args[1].(*SliceV)
		e.mustHold(e.st.Cmp(OpUle, e.c64(int64(nb)), sl.len), "index out of range", "binary.Uint")
		bb := e.sliceBytes(sl)
		var r *Term
		for i := 0; i < nb; i++ {
			k := i
			if little {
				k = nb - 1 - i
			}
			b := e.st.Select(bb.arr, e.st.Bin(OpAdd, sl.off, e.c64(int64(k))))
			if r == nil {
				r = b
			} else {
				r = e.st.Concat(r, b)
			}
		}
		return r, true
	case "AppendUint":
		sl := args[1].(*SliceV)
		v := args[2].(*Term)
		if sl.obj != nil && !(sl.len.op == OpConst && sl.len.val == 0) {
			e.unsupported("binary.AppendUint to a non-empty slice")
		}
		arr := e.st.ConstArr(bytesSort, 0)
		for i := 0; i < nb; i++ {
			arr = e.st.StoreArr(arr, e.c64(int64(i)), byteOf(v, i))
		}
		o := e.newObj(&BytesV{arr: arr, n: -1}, "binary.Append")
		return &SliceV{obj: o, off: e.c64(0), len: e.c64(int64(nb)), cap: e.c64(int64(nb))}, true
	}
	return nil, false
}
