package main

// SSA interpreter over symbolic values; paths explored by re-execution with
// decision prefixes.

import (
	"fmt"
	"go/constant"
	"go/token"
	"go/types"
	"sort"
	"strings"
	"sync"
	"time"

	"golang.org/x/tools/go/ssa"
)

const repoMod = "github.com/koron-go/z80"

type decision struct {
	kind byte // 0 branch, 1 concretise
	v    uint64
}

type Obligation struct {
	Name   string
	Kind   string // "assert", "panic"
	PC     []*Term
	Cond   *Term // must hold under PC
	Detail string
	Ident  []*Term // terms found equal by syntactic identity (Cond folded to true)
}

type pathEnd struct {
	status string // "infeasible", "undecided", "bounded", "stop"
	reason string
}

type Event struct {
	Kind string
	Args []Value
}

// Thread: a recorded goroutine, run as a coroutine (its own Go goroutine, one
// runs at a time, baton passed over resume/yield).
type Thread struct {
	id      int
	fn      *FuncV
	args    []Value
	started bool
	done    bool
	running bool
	ready   func() bool      // set while blocked: may it continue?
	resume  chan bool        // scheduler -> thread: true continue, false abort (path over)
	yield   chan interface{} // thread -> scheduler: nil = blocked or finished, else a panic value
}

type threadAbort struct{}

type ctxInfo struct {
	parent    int // 0 = none
	cancelled bool
	deadline  bool
}

type threadBlocked struct{}

type Exec struct {
	st   *Store
	sol  *Solver
	prog *ssa.Program
	L    *Loaded

	// per path
	pcs         []*Term
	prefix      []decision
	di          int
	taken       []decision
	forks       [][]decision
	conc        map[int]uint64
	obligations []Obligation
	assumes     []string
	objSeq      int
	globals     map[*ssa.Global]*Obj
	initDone    map[*ssa.Package]bool
	buses       map[string]*BusState
	events      []Event
	threads     []*Thread
	ctxs        map[int]*ctxInfo
	instrCount  int
	depth       int
	forkCount   int
	unknownBr   int
	notes       []string
	output      map[string][]Value // captured output logs (writers)

	// per job
	overrides        map[string]string
	harnessPkg       *ssa.Package
	funcsSeen        map[string]bool
	maxForks         int
	unwind           int
	qcache           map[[2]int]Verdict
	feasQ            int
	panicOblig       bool // record implicit-panic obligations
	globalW          map[string]bool
	globalInit       map[string]bool // written only by constant stores inside sync.Once.Do
	globalAtomW      map[string]bool // package variables updated by atomic Store / Add whose result is discarded
	globalAtomR      map[string]bool // package variables read atomically
	callResultUnused bool

	inOnce    int
	globalR   map[string]bool
	loopFuncs map[string]bool
	inStep    int
	identSeen []*Term
	observed  []Observation
	nondetSeq int

	// happens-before race detection (vector clocks) over recorded goroutines
	cmd          cmdEnv
	deadline     time.Time
	aliasResolve bool // resolve select-over-store aliasing with the solver under the path condition
	lazy         bool // lazy goroutine schedule (vSchedLazy)
	preferFalse  bool // hint for the next Branch: take the false side first when both are feasible
	aliasQ       int

	curThread  int
	vcs        [][]int
	locs       map[string]*locState
	ctxRel     map[int][]int
	raceSeen   map[string]bool
	raceChecks int
	onceDone   map[string]bool
	wgCount    map[string]int
	syncMaps   map[string]*syncMapState
}

// environment of the command-line tools (C19): flags, the input file and the
// ordered output written through bufio
type flagReg struct {
	p    *PtrV
	name string
}

type outSeg struct{ arr, off, n *Term }

type cmdEnv struct {
	regs     []flagReg
	flags    map[string]Value
	file     *SliceV
	fileName *StringV
	readName *StringV
	out      []outSeg
	pending  []outSeg
	noTrunc  bool
	inPlace  bool // the input file is the output file
	trunc    bool // ... and has been truncated by os.Create already
	flushed  bool
	closed   bool
}

type accessRec struct {
	thread, clock int
	atomic        bool
	where         string
}

type locState struct {
	lastW *accessRec
	reads []accessRec
	rel   []int
}

type frame struct {
	fn     *ssa.Function
	env    map[ssa.Value]Value
	defers []func()
	visits map[*ssa.BasicBlock]int
	result Value
}

func (e *Exec) unsupported(msg string) {
	panic(pathEnd{"undecided", "unsupported: " + msg})
}

func (e *Exec) resetPath(prefix []decision) {
	e.pcs = nil
	e.prefix = prefix
	e.di = 0
	e.taken = nil
	e.forks = nil
	e.conc = map[int]uint64{}
	e.obligations = nil
	e.assumes = nil
	e.objSeq = 0
	e.globals = map[*ssa.Global]*Obj{}
	e.initDone = map[*ssa.Package]bool{}
	e.buses = map[string]*BusState{}
	e.events = nil
	e.threads = nil
	e.ctxs = map[int]*ctxInfo{}
	e.instrCount = 0
	e.depth = 0
	e.forkCount = 0
	e.unknownBr = 0
	e.notes = nil
	e.output = map[string][]Value{}
	e.inStep = 0
	e.nondetSeq = 0
	e.observed = nil
	e.identSeen = nil
	e.cmd = cmdEnv{flags: map[string]Value{}}
	e.curThread = 0
	e.vcs = [][]int{{1}}
	e.locs = map[string]*locState{}
	e.ctxRel = map[int][]int{}
	e.raceSeen = map[string]bool{}
	e.onceDone = map[string]bool{}
	e.wgCount = map[string]int{}
	e.syncMaps = map[string]*syncMapState{}
}

type Observation struct {
	Name string
	Term *Term
}

type PathResult struct {
	Observed    []Observation
	PCs         []*Term
	Decisions   []decision
	Obligations []Obligation
	Status      string
	Reason      string
	Forks       [][]decision
	Instrs      int
	Events      []Event
	UnknownBr   int
}

func (e *Exec) RunPath(entry *ssa.Function, args []Value, prefix []decision) (res PathResult) {
	e.resetPath(prefix)
	defer func() {
		r := recover()
		e.abortThreads()
		if r != nil {
			pe, ok := r.(pathEnd)
			if !ok {
				panic(r)
			}
			res = e.result(pe.status, pe.reason)
		}
	}()
	e.runInit(entry.Package())
	e.callFunc(entry, args, nil)
	return e.result("ok", "")
}

// runInit executes the package initialiser (package-level variables get their
// real initial values; initialisers of packages outside the module are skipped).
func (e *Exec) runInit(p *ssa.Package) {
	if p == nil || e.initDone[p] {
		return
	}
	e.initDone[p] = true
	if f := p.Func("init"); f != nil {
		gw := e.globalW
		e.globalW = map[string]bool{} // writes by initialisers are not Step's footprint
		e.callFunc(f, nil, nil)
		e.globalW = gw
	}
}

func (e *Exec) result(status, reason string) PathResult {
	return PathResult{Observed: e.observed, PCs: append([]*Term(nil), e.pcs...), Decisions: e.taken, Obligations: e.obligations, Status: status, Reason: reason,
		Forks: e.forks, Instrs: e.instrCount, Events: e.events, UnknownBr: e.unknownBr}
}

// ---------------------------------------------------------------------------
// path condition / branching

func (e *Exec) feasible(cond *Term) Verdict {
	if cond.IsTrue() {
		return Sat
	}
	if !e.deadline.IsZero() && time.Now().After(e.deadline) {
		panic(pathEnd{"undecided", "time budget of the check exceeded"})
	}
	if cond.IsFalse() {
		return Unsat
	}
	pc := e.st.AndN(e.pcs)
	k := [2]int{pc.id, cond.id}
	if v, ok := e.qcache[k]; ok {
		return v
	}
	as := append(append([]*Term(nil), e.pcs...), cond)
	v, _, _ := e.sol.Check(as, nil)
	e.feasQ++
	e.qcache[k] = v
	return v
}

func (e *Exec) addPC(c *Term) {
	if c.IsTrue() {
		return
	}
	e.pcs = append(e.pcs, c)
	e.learn(c)
}

// learn remembers equalities with constants (also inside conjunctions) so
// that later branches on the same term fold without the solver.
func (e *Exec) learn(c *Term) {
	switch {
	case c.op == OpEq && c.a[1].op == OpConst && c.a[0].w > 0:
		e.conc[c.a[0].id] = c.a[1].val
	case c.op == OpBAnd:
		e.learn(c.a[0])
		e.learn(c.a[1])
	}
}

func (e *Exec) foldConc(c *Term) *Term {
	neg := false
	t := c
	if t.op == OpNot {
		neg = true
		t = t.a[0]
	}
	if t.op == OpEq && t.a[1].op == OpConst {
		if v, ok := e.conc[t.a[0].id]; ok {
			return e.st.Bool((v == t.a[1].val) != neg)
		}
	}
	return c
}

// Branch decides a symbolic condition on this path.
func (e *Exec) Branch(cond *Term) bool {
	defer func() { e.preferFalse = false }()
	if cond.op == OpConst {
		return cond.val != 0
	}
	cond = e.foldConc(cond)
	if cond.op == OpConst {
		return cond.val != 0
	}
	// already decided on this path (2-copy harnesses repeat the same conditions)
	for _, c := range e.pcs {
		if c == cond {
			return true
		}
		if c.op == OpNot && c.a[0] == cond || cond.op == OpNot && cond.a[0] == c {
			return false
		}
	}
	// solver-side concretisation of memory reads compared with constants
	t := cond
	if t.op == OpNot {
		t = t.a[0]
	}
	if t.op == OpEq && t.a[1].op == OpConst && t.a[0].op == OpSelect && t.a[0].w <= 16 {
		if v, ok := e.concretise(t.a[0]); ok {
			e.conc[t.a[0].id] = v
			cond = e.foldConc(cond)
			if cond.op == OpConst {
				return cond.val != 0
			}
		}
	}
	if e.di < len(e.prefix) {
		d := e.prefix[e.di]
		if d.kind != 0 {
			panic("decision kind mismatch on re-execution (branch)")
		}
		e.di++
		e.taken = append(e.taken, d)
		if d.v != 0 {
			e.addPC(cond)
		} else {
			e.addPC(e.st.Not(cond))
		}
		return d.v != 0
	}
	vt := e.feasible(cond)
	var vf Verdict
	if vt == Unsat {
		vf = Sat
	} else {
		vf = e.feasible(e.st.Not(cond))
	}
	if vt == Unknown || vf == Unknown {
		e.unknownBr++
	}
	takeTrue := vt != Unsat
	if vt != Unsat && vf != Unsat {
		e.forkCount++
		if e.forkCount > e.maxForks {
			panic(pathEnd{"undecided", "fork bound exceeded"})
		}
		altV := uint64(0)
		if e.preferFalse {
			takeTrue, altV = false, 1
		}
		alt := append(append([]decision(nil), e.taken...), decision{0, altV})
		e.forks = append(e.forks, alt)
	}
	e.di++
	if takeTrue {
		e.taken = append(e.taken, decision{0, 1})
		e.addPC(cond)
	} else {
		e.taken = append(e.taken, decision{0, 0})
		e.addPC(e.st.Not(cond))
	}
	return takeTrue
}

// concretise asks whether t has exactly one value under the path condition.
func (e *Exec) concretise(t *Term) (uint64, bool) {
	if e.di < len(e.prefix) {
		d := e.prefix[e.di]
		if d.kind == 1 {
			e.di++
			e.taken = append(e.taken, d)
			if d.v == ^uint64(0) {
				return 0, false
			}
			return d.v, true
		}
		// recorded run did not concretise here: it went straight to a branch
		// (cannot happen: concretise is deterministic)
		panic("decision kind mismatch on re-execution (concretise)")
	}
	e.di++
	v, vals, _ := e.sol.Check(e.pcs, []*Term{t})
	e.feasQ++
	if v != Sat || len(vals) != 1 {
		e.taken = append(e.taken, decision{1, ^uint64(0)})
		return 0, false
	}
	c := e.st.Const(t.w, vals[0])
	as := append(append([]*Term(nil), e.pcs...), e.st.Not(e.st.Eq(t, c)))
	v2, _, _ := e.sol.Check(as, nil)
	e.feasQ++
	if v2 != Unsat {
		e.taken = append(e.taken, decision{1, ^uint64(0)})
		return 0, false
	}
	e.taken = append(e.taken, decision{1, vals[0]})
	return vals[0], true
}

// Assume restricts the path; an infeasible assumption ends it silently.
func (e *Exec) Assume(c *Term, what string) {
	c = e.foldConc(c)
	if c.IsTrue() {
		return
	}
	if c.IsFalse() {
		panic(pathEnd{"infeasible", "assumption false: " + what})
	}
	if e.feasible(c) == Unsat {
		panic(pathEnd{"infeasible", "assumption unsatisfiable: " + what})
	}
	e.addPC(c)
}

// mustHold records an implicit-panic obligation and continues on the safe side.
func (e *Exec) mustHold(c *Term, kind, detail string) {
	c = e.foldConc(c)
	if c.IsTrue() {
		return
	}
	e.obligations = append(e.obligations, Obligation{Name: "nopanic", Kind: "panic",
		PC: append([]*Term(nil), e.pcs...), Cond: c, Detail: kind + ": " + detail})
	if c.IsFalse() {
		panic(pathEnd{"panic", kind + ": " + detail})
	}
	if e.feasible(c) == Unsat {
		panic(pathEnd{"panic", kind + ": " + detail})
	}
	e.addPC(c)
}

func (e *Exec) Assert(name string, c *Term) {
	c = e.foldConc(c)
	o := Obligation{Name: name, Kind: "assert", PC: append([]*Term(nil), e.pcs...), Cond: c}
	if c.IsTrue() {
		o.Ident = e.identSeen
	}
	e.identSeen = nil
	e.obligations = append(e.obligations, o)
}

// ---------------------------------------------------------------------------
// function calls

func fullName(fn *ssa.Function) string { return fn.String() }

// interpretable library packages (pure Go, loaded with syntax)
var libPkgs = map[string]bool{"slices": true, "cmp": true, "bytes": true}

func inRepo(fn *ssa.Function) bool {
	if isLib(fn) {
		return true
	}
	p := fn.Package()
	if p == nil {
		// synthetic wrappers / instantiations: look at the origin or the receiver
		if fn.Origin() != nil && fn.Origin().Package() != nil {
			p = fn.Origin().Package()
		} else if o := fn.Object(); o != nil && o.Pkg() != nil {
			return strings.HasPrefix(o.Pkg().Path(), repoMod)
		} else {
			return strings.Contains(fn.String(), repoMod)
		}
	}
	return strings.HasPrefix(p.Pkg.Path(), repoMod)
}

func isLib(fn *ssa.Function) bool {
	p := fn.Package()
	if p == nil && fn.Origin() != nil {
		p = fn.Origin().Package()
	}
	return p != nil && libPkgs[p.Pkg.Path()] && fn.Blocks != nil
}

func (e *Exec) callFunc(fn *ssa.Function, args []Value, free []Value) Value {
	name := fn.Name()
	full := fullName(fn)
	// overrides requested by the driver
	if tgt, ok := e.overrides[full]; ok && e.harnessPkg != nil {
		h := e.harnessPkg.Func(tgt)
		if h == nil {
			e.unsupported("override target missing: " + tgt)
		}
		return e.callFunc(h, args, nil)
	}
	if isLib(fn) {
		if r, ok := e.libStub(fn, args); ok {
			return r
		}
	} else if inRepo(fn) {
		if r, ok := e.intrinsic(fn, name, args); ok {
			return r
		}
	} else {
		if r, ok := e.stub(fn, full, args); ok {
			return r
		}
		if fn.Name() == "init" {
			return nil
		}
		e.unsupported("call to external function " + full)
	}
	if fn.Blocks == nil {
		e.unsupported("function without body " + full)
	}
	e.funcsSeen[full] = true
	if name == "Step" && recvNamed(fn) == "CPU" {
		e.inStep++
		defer func() { e.inStep-- }()
	}
	e.depth++
	if e.depth > 200 {
		e.unsupported("call depth exceeded")
	}
	defer func() { e.depth-- }()
	fr := &frame{fn: fn, env: make(map[ssa.Value]Value, 32), visits: map[*ssa.BasicBlock]int{}}
	for i, p := range fn.Params {
		if i < len(args) {
			fr.env[p] = args[i]
		}
	}
	for i, fv := range fn.FreeVars {
		fr.env[fv] = free[i]
	}
	return e.runFrame(fr)
}

func (e *Exec) runFrame(fr *frame) Value {
	var prev *ssa.BasicBlock
	b := fr.fn.Blocks[0]
	for {
		fr.visits[b]++
		if fr.visits[b] == 2 && e.inStep > 0 {
			e.loopFuncs[fullName(fr.fn)] = true
		}
		if fr.visits[b] > e.unwind {
			panic(pathEnd{"undecided", fmt.Sprintf("unwinding bound %d exceeded in %s", e.unwind, fr.fn.Name())})
		}
		var next *ssa.BasicBlock
		for _, ins := range b.Instrs {
			e.instrCount++
			switch x := ins.(type) {
			case *ssa.Phi:
				for i, p := range b.Preds {
					if p == prev {
						fr.env[x] = e.get(fr, x.Edges[i])
						break
					}
				}
			case *ssa.If:
				c := e.get(fr, x.Cond).(*Term)
				// at a loop test, leave the loop first: with the shortest-prefix-first
				// work list this explores loops by iterative deepening
				e.preferFalse = loopExitIsFalse(b)
				if e.Branch(c) {
					next = b.Succs[0]
				} else {
					next = b.Succs[1]
				}
			case *ssa.Jump:
				next = b.Succs[0]
			case *ssa.Return:
				switch len(x.Results) {
				case 0:
					return nil
				case 1:
					return e.get(fr, x.Results[0])
				default:
					tv := make(TupleV, len(x.Results))
					for i, r := range x.Results {
						tv[i] = e.get(fr, r)
					}
					return tv
				}
			case *ssa.Panic:
				e.obligations = append(e.obligations, Obligation{Name: "nopanic", Kind: "panic",
					PC: append([]*Term(nil), e.pcs...), Cond: e.st.False, Detail: "explicit panic in " + fr.fn.Name()})
				panic(pathEnd{"panic", "explicit panic in " + fr.fn.Name()})
			default:
				e.step(fr, ins)
			}
		}
		if next == nil {
			e.unsupported("block without terminator")
		}
		prev, b = b, next
	}
}

func (e *Exec) get(fr *frame, v ssa.Value) Value {
	switch x := v.(type) {
	case *ssa.Const:
		return e.constVal(x)
	case *ssa.Global:
		return &PtrV{obj: e.globalObj(x)}
	case *ssa.Function:
		return &FuncV{fn: x}
	case *ssa.Builtin:
		return &FuncV{ext: "builtin:" + x.Name()}
	}
	r, ok := fr.env[v]
	if !ok {
		e.unsupported(fmt.Sprintf("value %s (%T) not evaluated in %s", v.Name(), v, fr.fn.Name()))
	}
	return r
}

func (e *Exec) globalObj(g *ssa.Global) *Obj {
	if o, ok := e.globals[g]; ok {
		return o
	}
	et := g.Type().(*types.Pointer).Elem()
	var v Value
	if g.Pkg != nil && !strings.HasPrefix(g.Pkg.Pkg.Path(), repoMod) && types.Identical(et, types.Universe.Lookup("error").Type()) {
		// a sentinel error of another package (io.EOF, context.Canceled ...): a
		// distinct non-nil value, identity only
		e.objSeq++
		v = &IfaceV{t: types.Typ[types.UnsafePointer], v: &OpaqueV{kind: "error", id: e.objSeq, data: g.String()}}
	} else {
		v = e.zero(et)
	}
	o := e.newObj(v, "global:"+g.String())
	e.globals[g] = o
	return o
}

// sentinel returns the value of another package's error variable (io.EOF ...).
func (e *Exec) sentinel(pkg, name string) Value {
	for _, p := range e.prog.AllPackages() {
		if p.Pkg.Path() == pkg {
			if g, ok := p.Members[name].(*ssa.Global); ok {
				return e.globalObj(g).v
			}
		}
	}
	e.unsupported("sentinel " + pkg + "." + name + " not loaded")
	return nil
}

func (e *Exec) constVal(c *ssa.Const) Value {
	t := c.Type()
	if c.Value == nil {
		return e.zero(t)
	}
	switch c.Value.Kind() {
	case constant.Bool:
		return e.st.Bool(constant.BoolVal(c.Value))
	case constant.String:
		return &StringV{lit: constant.StringVal(c.Value)}
	case constant.Int:
		w, _, ok := intWidth(t)
		if !ok {
			e.unsupported("int const of type " + t.String())
		}
		if w == 0 {
			w = 64
		}
		if u, ok := constant.Uint64Val(c.Value); ok {
			return e.st.Const(w, u)
		}
		i, ok := constant.Int64Val(c.Value)
		if !ok {
			e.unsupported("const out of range")
		}
		return e.st.Const(w, uint64(i))
	}
	e.unsupported("constant kind " + c.Value.Kind().String())
	return nil
}

// ---------------------------------------------------------------------------
// instructions

func (e *Exec) step(fr *frame, ins ssa.Instruction) {
	switch x := ins.(type) {
	case *ssa.Alloc:
		fr.env[x] = &PtrV{obj: e.newObj(e.zero(x.Type().(*types.Pointer).Elem()), x.Comment)}
	case *ssa.BinOp:
		fr.env[x] = e.binop(x.Op, e.get(fr, x.X), e.get(fr, x.Y), x.X.Type(), x.Y.Type())
	case *ssa.UnOp:
		fr.env[x] = e.unop(fr, x)
	case *ssa.Call:
		e.callResultUnused = x.Referrers() != nil && len(*x.Referrers()) == 0
		fr.env[x] = e.doCall(fr, x.Common())
	case *ssa.ChangeType:
		fr.env[x] = e.get(fr, x.X)
	case *ssa.ChangeInterface:
		fr.env[x] = e.get(fr, x.X)
	case *ssa.Convert:
		fr.env[x] = e.convert(e.get(fr, x.X), x.X.Type(), x.Type())
	case *ssa.Extract:
		fr.env[x] = e.get(fr, x.Tuple).(TupleV)[x.Index]
	case *ssa.Field:
		fr.env[x] = copyVal(e.get(fr, x.X).(*StructV).f[x.Field])
	case *ssa.FieldAddr:
		p := e.get(fr, x.X).(*PtrV)
		e.nilCheck(p, "field address of nil pointer")
		fr.env[x] = &PtrV{obj: p.obj, path: extendPath(p.path, pathElem{i: x.Field})}
	case *ssa.Index:
		fr.env[x] = e.indexValue(fr, x)
	case *ssa.IndexAddr:
		fr.env[x] = e.indexAddr(fr, x)
	case *ssa.Slice:
		fr.env[x] = e.sliceOp(fr, x)
	case *ssa.Store:
		p := e.get(fr, x.Addr).(*PtrV)
		e.nilCheck(p, "store through nil pointer")
		if strings.HasPrefix(p.obj.name, "global:") {
			// one-time initialisation under sync.Once that stores constants at constant
			// places (a lazily built lookup table) is synchronised and the same whoever
			// runs it: recorded, not a write that could carry influence between CPUs
			if e.inOnce > 0 && groundValue(e.get(fr, x.Val)) && groundPath(p.path) {
				e.globalInit[p.obj.name[7:]] = true
			} else {
				e.globalW[p.obj.name[7:]] = true
			}
		}
		e.access(p, true, false, fr.fn.Name())
		e.store(p, e.get(fr, x.Val))
	case *ssa.MakeInterface:
		fr.env[x] = &IfaceV{t: x.X.Type(), v: e.get(fr, x.X)}
	case *ssa.MakeClosure:
		fv := &FuncV{fn: x.Fn.(*ssa.Function)}
		for _, b := range x.Bindings {
			fv.free = append(fv.free, e.get(fr, b))
		}
		fr.env[x] = fv
	case *ssa.TypeAssert:
		fr.env[x] = e.typeAssert(fr, x)
	case *ssa.MakeSlice:
		fr.env[x] = e.makeSlice(fr, x)
	case *ssa.MakeMap:
		fr.env[x] = e.makeMap(x.Type())
	case *ssa.MapUpdate:
		e.mapUpdate(e.get(fr, x.Map).(*MapV), e.get(fr, x.Key), e.get(fr, x.Value))
	case *ssa.Lookup:
		fr.env[x] = e.lookup(fr, x)
	case *ssa.Range:
		fr.env[x] = e.rangeOp(fr, x)
	case *ssa.Next:
		fr.env[x] = e.nextOp(fr, x)
	case *ssa.Defer:
		c := x.Common()
		fn, args := e.resolveCall(fr, c)
		fr.defers = append(fr.defers, func() { e.invoke(fn, args) })
	case *ssa.RunDefers:
		for i := len(fr.defers) - 1; i >= 0; i-- {
			fr.defers[i]()
		}
		fr.defers = nil
	case *ssa.Go:
		c := x.Common()
		fn, args := e.resolveCall(fr, c)
		e.threads = append(e.threads, &Thread{id: len(e.threads) + 1, fn: fn, args: args})
		e.events = append(e.events, Event{Kind: "go"})
		e.forkClock()
		e.wake()
	case *ssa.MakeChan:
		n := e.constInt(e.get(fr, x.Size))
		e.objSeq++
		fr.env[x] = &ChanV{c: &ChanObj{id: e.objSeq, cap: int(n), zero: e.zero(x.Type().Underlying().(*types.Chan).Elem())}}
	case *ssa.Send:
		e.chanSend(e.get(fr, x.Chan), e.get(fr, x.X))
	case *ssa.Select:
		fr.env[x] = e.selectOp(fr, x)
	case *ssa.DebugRef:
	default:
		e.unsupported(fmt.Sprintf("instruction %T in %s", ins, fr.fn.Name()))
	}
}

// taintGlobal marks objects reachable from a package-level variable, so that
// writes through them count as writes to shared state (footprint, C10).
func (e *Exec) taintGlobal(v Value, from string) {
	switch x := v.(type) {
	case *MapV:
		if x.m != nil && x.m.global == "" {
			x.m.global = from[7:]
		}
	case *PtrV:
		if x.obj != nil && !strings.HasPrefix(x.obj.name, "global:") {
			x.obj.name = from + "->" + x.obj.name
		}
	case *SliceV:
		if x.obj != nil && !strings.HasPrefix(x.obj.name, "global:") {
			x.obj.name = from + "->" + x.obj.name
		}
	case *StructV:
		for _, f := range x.f {
			e.taintGlobal(f, from)
		}
	case *IfaceV:
		if x.v != nil {
			e.taintGlobal(x.v, from)
		}
	}
}

func (e *Exec) nilCheck(p *PtrV, what string) {
	if p.obj == nil {
		e.mustHold(e.st.False, "nil dereference", what)
	}
}

func (e *Exec) unop(fr *frame, x *ssa.UnOp) Value {
	v := e.get(fr, x.X)
	switch x.Op {
	case token.MUL:
		p := v.(*PtrV)
		e.nilCheck(p, "load through nil pointer in "+fr.fn.Name())
		e.access(p, false, false, fr.fn.Name())
		if strings.HasPrefix(p.obj.name, "global:") {
			e.globalR[p.obj.name[7:]] = true
			// whatever a package-level variable refers to is shared state as well
			v := e.load(p)
			e.taintGlobal(v, p.obj.name)
			return v
		}
		return e.load(p)
	case token.NOT:
		return e.st.Not(v.(*Term))
	case token.SUB:
		return e.st.Neg(v.(*Term))
	case token.XOR:
		return e.st.BvNot(v.(*Term))
	case token.ARROW:
		return e.chanRecv(v, x.CommaOk)
	}
	e.unsupported("unop " + x.Op.String())
	return nil
}

func (e *Exec) binop(op token.Token, a, b Value, ta, tb types.Type) Value {
	switch x := a.(type) {
	case *Term:
		y := b.(*Term)
		if x.w == 0 {
			switch op {
			case token.EQL:
				return e.st.Eq(x, y)
			case token.NEQ:
				return e.st.Not(e.st.Eq(x, y))
			case token.AND:
				return e.st.And(x, y)
			case token.OR:
				return e.st.Or(x, y)
			}
			e.unsupported("bool binop " + op.String())
		}
		_, signed, _ := intWidth(ta)
		switch op {
		case token.EQL:
			return e.eqT(x, y)
		case token.ADD:
			return e.st.Bin(OpAdd, x, y)
		case token.SUB:
			return e.st.Bin(OpSub, x, y)
		case token.MUL:
			return e.st.Bin(OpMul, x, y)
		case token.AND:
			return e.st.Bin(OpAnd, x, y)
		case token.OR:
			return e.st.Bin(OpOr, x, y)
		case token.XOR:
			return e.st.Bin(OpXor, x, y)
		case token.AND_NOT:
			return e.st.Bin(OpAnd, x, e.st.BvNot(y))
		case token.QUO, token.REM:
			e.mustHold(e.st.Not(e.st.Eq(y, e.st.Const(y.w, 0))), "division by zero", "")
			o := map[bool]map[token.Token]Op{true: {token.QUO: OpSdiv, token.REM: OpSrem}, false: {token.QUO: OpUdiv, token.REM: OpUrem}}[signed][op]
			return e.st.Bin(o, x, y)
		case token.SHL, token.SHR:
			cnt := e.shiftCount(y, x.w)
			if op == token.SHL {
				return e.st.Bin(OpShl, x, cnt)
			}
			if signed {
				return e.st.Bin(OpAshr, x, cnt)
			}
			return e.st.Bin(OpLshr, x, cnt)
		case token.NEQ:
			return e.st.Not(e.st.Eq(x, y))
		case token.LSS:
			if signed {
				return e.st.Cmp(OpSlt, x, y)
			}
			return e.st.Cmp(OpUlt, x, y)
		case token.LEQ:
			if signed {
				return e.st.Cmp(OpSle, x, y)
			}
			return e.st.Cmp(OpUle, x, y)
		case token.GTR:
			if signed {
				return e.st.Cmp(OpSlt, y, x)
			}
			return e.st.Cmp(OpUlt, y, x)
		case token.GEQ:
			if signed {
				return e.st.Cmp(OpSle, y, x)
			}
			return e.st.Cmp(OpUle, y, x)
		}
		e.unsupported("int binop " + op.String())
	case *StringV:
		y := b.(*StringV)
		switch op {
		case token.ADD:
			if !x.isSym && !y.isSym {
				return &StringV{lit: x.lit + y.lit}
			}
			if !x.isSym && x.lit == "" {
				return y
			}
			if !y.isSym && y.lit == "" {
				return x
			}
			e.unsupported("symbolic string concatenation")
		case token.EQL, token.NEQ:
			r := e.stringEq(x, y)
			if op == token.NEQ {
				r = e.st.Not(r)
			}
			return r
		}
		e.unsupported("string binop " + op.String())
	default:
		switch op {
		case token.EQL:
			return e.valueEq(a, b)
		case token.NEQ:
			return e.st.Not(e.valueEq(a, b))
		}
		e.unsupported(fmt.Sprintf("binop %s on %T", op, a))
	}
	return nil
}

// eqT is Eq that remembers when two non-constant terms were found equal by
// syntactic identity (evidence: obligations discharged without the solver).
func (e *Exec) eqT(x, y *Term) *Term {
	r := e.st.Eq(x, y)
	if r.IsTrue() && x.op != OpConst && len(e.identSeen) < 64 {
		e.identSeen = append(e.identSeen, x)
	}
	return r
}

func (e *Exec) shiftCount(y *Term, w int) *Term {
	if y.w == w {
		return y
	}
	if y.w < w {
		return e.st.Zext(w, y)
	}
	if y.op == OpConst {
		if y.val >= uint64(w) {
			return e.st.Const(w, uint64(w))
		}
		return e.st.Const(w, y.val)
	}
	return e.st.Ite(e.st.Cmp(OpUlt, y, e.st.Const(y.w, uint64(w))), e.st.Extract(w-1, 0, y), e.st.Const(w, uint64(w)))
}

func (e *Exec) stringEq(x, y *StringV) *Term {
	if !x.isSym && !y.isSym {
		return e.st.Bool(x.lit == y.lit)
	}
	// only comparison with the empty string / by length+content for literals
	if x.isSym && !y.isSym {
		x, y = y, x
	}
	if !x.isSym {
		r := e.st.Eq(y.n, e.c64(int64(len(x.lit))))
		for i := 0; i < len(x.lit); i++ {
			r = e.st.And(r, e.st.Eq(e.st.Select(y.arr, e.c64(int64(i))), e.st.Const(8, uint64(x.lit[i]))))
		}
		return r
	}
	e.unsupported("comparison of two symbolic strings")
	return nil
}

func (e *Exec) valueEq(a, b Value) *Term {
	switch x := a.(type) {
	case *Term:
		return e.eqT(x, b.(*Term))
	case *StructV:
		y := b.(*StructV)
		r := e.st.True
		for i := range x.f {
			r = e.st.And(r, e.valueEq(x.f[i], y.f[i]))
		}
		return r
	case *ArrayV:
		y := b.(*ArrayV)
		r := e.st.True
		for i := range x.e {
			r = e.st.And(r, e.valueEq(x.e[i], y.e[i]))
		}
		return r
	case *PtrV:
		y := b.(*PtrV)
		return e.st.Bool(x.obj == y.obj && samePath(x.path, y.path))
	case *IfaceV:
		y, ok := b.(*IfaceV)
		if !ok {
			e.unsupported("iface compared with non-iface")
		}
		if x.t == nil || y.t == nil {
			return e.st.Bool(x.t == nil && y.t == nil)
		}
		if !types.Identical(x.t, y.t) {
			return e.st.False
		}
		return e.valueEq(x.v, y.v)
	case *MapV:
		y := b.(*MapV)
		if y.m == nil {
			return e.st.Bool(x.m == nil)
		}
		if x.m == nil {
			return e.st.Bool(y.m == nil)
		}
		e.unsupported("map comparison")
	case *SliceV:
		y := b.(*SliceV)
		if y.obj == nil {
			return e.st.Bool(x.obj == nil)
		}
		if x.obj == nil {
			return e.st.Bool(y.obj == nil)
		}
		e.unsupported("slice comparison")
	case *FuncV:
		y := b.(*FuncV)
		if y.fn == nil && y.ext == "" {
			return e.st.Bool(x.fn == nil && x.ext == "")
		}
		if x.fn == nil && x.ext == "" {
			return e.st.False
		}
		e.unsupported("func comparison")
	case *OpaqueV:
		y, ok := b.(*OpaqueV)
		return e.st.Bool(ok && x.kind == y.kind && x.id == y.id)
	case *StringV:
		return e.stringEq(x, b.(*StringV))
	case *BytesV:
		e.unsupported("byte array comparison")
	}
	e.unsupported(fmt.Sprintf("equality on %T", a))
	return nil
}

func (e *Exec) convert(v Value, from, to types.Type) Value {
	switch x := v.(type) {
	case *Term:
		tw, _, ok := intWidth(to)
		if !ok {
			if b, isb := to.Underlying().(*types.Basic); isb && b.Kind() == types.String {
				// string(rune): UTF-8 encoding (length depends on the value: forks)
				if _, fs, _ := intWidth(from); fs && x.w < 32 {
					x = e.st.Sext(32, x)
				}
				bs := e.utf8Encode(x, nil)
				arr := e.st.ConstArr(bytesSort, 0)
				for i, t := range bs {
					arr = e.st.StoreArr(arr, e.c64(int64(i)), t)
				}
				return &StringV{isSym: true, arr: arr, n: e.c64(int64(len(bs)))}
			}
			e.unsupported("convert int to " + to.String())
		}
		_, fs, _ := intWidth(from)
		if tw == x.w {
			return x
		}
		if tw < x.w {
			return e.st.Extract(tw-1, 0, x)
		}
		if fs {
			return e.st.Sext(tw, x)
		}
		return e.st.Zext(tw, x)
	case *StringV:
		if isByteSlice(to) {
			// []byte(s): fresh backing array with the same contents
			arr, n := e.stringArr(x)
			o := e.newObj(&BytesV{arr: arr, n: -1}, "[]byte(string)")
			return &SliceV{obj: o, off: e.c64(0), len: n, cap: n}
		}
		return x
	case *SliceV:
		if b, isb := to.Underlying().(*types.Basic); isb && b.Kind() == types.String {
			bv := e.sliceBytes(x)
			if x.off.op == OpConst && x.off.val == 0 {
				return &StringV{isSym: true, arr: bv.arr, n: x.len}
			}
			e.unsupported("string(b) with non-zero offset")
		}
	case *PtrV:
		return x
	}
	e.unsupported(fmt.Sprintf("convert %T from %s to %s", v, from, to))
	return nil
}

func (e *Exec) stringArr(s *StringV) (*Term, *Term) {
	if s.isSym {
		return s.arr, s.n
	}
	arr := e.st.ConstArr(bytesSort, 0)
	for i := 0; i < len(s.lit); i++ {
		arr = e.st.StoreArr(arr, e.c64(int64(i)), e.st.Const(8, uint64(s.lit[i])))
	}
	return arr, e.c64(int64(len(s.lit)))
}

func (e *Exec) sliceBytes(s *SliceV) *BytesV {
	if s.obj == nil {
		return &BytesV{arr: e.st.ConstArr(bytesSort, 0), n: 0}
	}
	v := e.load0(&PtrV{obj: s.obj, path: s.path})
	bv, ok := v.(*BytesV)
	if !ok {
		e.unsupported("byte view of non-byte slice")
	}
	return bv
}

// load0 is load without copying (container access).
func (e *Exec) load0(p *PtrV) Value {
	v := p.obj.v
	for _, pe := range p.path {
		switch c := v.(type) {
		case *StructV:
			v = c.f[pe.i]
		case *ArrayV:
			v = c.e[pe.i]
		default:
			e.unsupported(fmt.Sprintf("load0: path through %T", v))
		}
	}
	return v
}

func (e *Exec) indexValue(fr *frame, x *ssa.Index) Value {
	c := e.get(fr, x.X)
	idx := e.toIdx(e.get(fr, x.Index).(*Term), x.Index.Type())
	switch a := c.(type) {
	case *ArrayV:
		if idx.op != OpConst {
			e.unsupported("symbolic index into array value")
		}
		return copyVal(a.e[idx.val])
	case *BytesV:
		e.mustHold(e.st.Cmp(OpUlt, idx, e.c64(int64(a.n))), "index out of range", fr.fn.Name())
		return e.st.Select(a.arr, idx)
	case *StringV:
		arr, n := e.stringArr(a)
		e.mustHold(e.st.Cmp(OpUlt, idx, n), "string index out of range", fr.fn.Name())
		return e.st.Select(arr, idx)
	}
	e.unsupported(fmt.Sprintf("index on %T", c))
	return nil
}

func (e *Exec) toIdx(t *Term, ty types.Type) *Term {
	if t.w == 64 {
		return t
	}
	_, signed, _ := intWidth(ty)
	if signed {
		return e.st.Sext(64, t)
	}
	return e.st.Zext(64, t)
}

func (e *Exec) indexAddr(fr *frame, x *ssa.IndexAddr) Value {
	c := e.get(fr, x.X)
	idx := e.toIdx(e.get(fr, x.Index).(*Term), x.Index.Type())
	switch a := c.(type) {
	case *PtrV: // pointer to array
		e.nilCheck(a, "index of nil array pointer")
		at := x.X.Type().Underlying().(*types.Pointer).Elem().Underlying().(*types.Array)
		e.mustHold(e.st.Cmp(OpUlt, idx, e.c64(at.Len())), "index out of range", fr.fn.Name())
		return &PtrV{obj: a.obj, path: extendPath(a.path, e.idxElem(idx, x.X.Type().Underlying().(*types.Pointer).Elem()))}
	case *SliceV:
		e.mustHold(e.st.Cmp(OpUlt, idx, a.len), "index out of range", fr.fn.Name()+" "+e.L.pos(x.Pos()))
		if a.obj == nil {
			e.unsupported("index into nil slice passed bounds check")
		}
		abs := e.st.Bin(OpAdd, a.off, idx)
		_, smt := intElemWidth(x.X.Type())
		return &PtrV{obj: a.obj, path: extendPath(a.path, e.idxElemT(abs, smt))}
	}
	e.unsupported(fmt.Sprintf("indexaddr on %T", c))
	return nil
}

func (e *Exec) idxElem(idx *Term, arrT types.Type) pathElem {
	_, isb := intElemWidth(arrT)
	return e.idxElemT(idx, isb)
}

func (e *Exec) idxElemT(idx *Term, bytes bool) pathElem {
	if idx.op == OpConst {
		return pathElem{i: int(idx.val)}
	}
	return pathElem{sym: idx}
}

func (e *Exec) sliceOp(fr *frame, x *ssa.Slice) Value {
	c := e.get(fr, x.X)
	opt := func(v ssa.Value) *Term {
		if v == nil {
			return nil
		}
		return e.toIdx(e.get(fr, v).(*Term), v.Type())
	}
	lo, hi, mx := opt(x.Low), opt(x.High), opt(x.Max)
	if lo == nil {
		lo = e.c64(0)
	}
	switch a := c.(type) {
	case *PtrV: // *array
		e.nilCheck(a, "slice of nil array pointer")
		at := x.X.Type().Underlying().(*types.Pointer).Elem().Underlying().(*types.Array)
		n := e.c64(at.Len())
		if hi == nil {
			hi = n
		}
		if mx == nil {
			mx = n
		}
		e.mustHold(e.st.And(e.st.Cmp(OpUle, lo, hi), e.st.And(e.st.Cmp(OpUle, hi, mx), e.st.Cmp(OpUle, mx, n))), "slice bounds out of range", fr.fn.Name())
		return &SliceV{obj: a.obj, path: a.path, off: lo, len: e.st.Bin(OpSub, hi, lo), cap: e.st.Bin(OpSub, mx, lo)}
	case *SliceV:
		if hi == nil {
			hi = a.len
		}
		if mx == nil {
			mx = a.cap
		}
		e.mustHold(e.st.And(e.st.Cmp(OpUle, lo, hi), e.st.And(e.st.Cmp(OpUle, hi, mx), e.st.Cmp(OpUle, mx, a.cap))), "slice bounds out of range", fr.fn.Name()+" "+e.L.pos(x.Pos()))
		if a.obj == nil {
			return &SliceV{off: e.c64(0), len: e.c64(0), cap: e.c64(0)}
		}
		return &SliceV{obj: a.obj, path: a.path, off: e.st.Bin(OpAdd, a.off, lo), len: e.st.Bin(OpSub, hi, lo), cap: e.st.Bin(OpSub, mx, lo)}
	case *StringV:
		arr, n := e.stringArr(a)
		if hi == nil {
			hi = n
		}
		e.mustHold(e.st.And(e.st.Cmp(OpUle, lo, hi), e.st.Cmp(OpUle, hi, n)), "string slice bounds out of range", fr.fn.Name())
		if lo.op == OpConst && lo.val == 0 {
			return &StringV{isSym: true, arr: arr, n: hi}
		}
		e.unsupported("string slicing with non-zero low bound")
	}
	e.unsupported(fmt.Sprintf("slice of %T", c))
	return nil
}

func (e *Exec) makeSlice(fr *frame, x *ssa.MakeSlice) Value {
	n := e.toIdx(e.get(fr, x.Len).(*Term), x.Len.Type())
	cp := e.toIdx(e.get(fr, x.Cap).(*Term), x.Cap.Type())
	if ew, ok := intElemWidth(x.Type()); ok {
		e.mustHold(e.st.Cmp(OpSle, e.c64(0), n), "makeslice: len out of range", fr.fn.Name())
		o := e.newObj(&BytesV{arr: e.st.ConstArr(ArrSort(64, ew), 0), n: -1}, "make([]int)")
		return &SliceV{obj: o, off: e.c64(0), len: n, cap: cp}
	}
	if n.op != OpConst || cp.op != OpConst {
		// a small symbolic length (e.g. len of a bounded map): split by value
		same := n == cp
		n = e.enumSmall(n, 16, "make: slice length")
		if same {
			cp = n
		} else {
			cp = e.enumSmall(cp, 16, "make: slice capacity")
		}
	}
	et := x.Type().Underlying().(*types.Slice).Elem()
	a := &ArrayV{e: make([]Value, int(cp.val))}
	for i := range a.e {
		a.e[i] = e.zero(et)
	}
	return &SliceV{obj: e.newObj(a, "make([]T)"), off: e.c64(0), len: n, cap: cp}
}

// enumSmall forks over the values 0..max of a symbolic integer.
func (e *Exec) enumSmall(t *Term, max int, what string) *Term {
	if t.op == OpConst {
		return t
	}
	for v := 0; v <= max; v++ {
		c := e.st.Const(t.w, uint64(v))
		if e.Branch(e.st.Eq(t, c)) {
			return c
		}
	}
	e.unsupported(what + " is symbolic and not within 0.." + fmt.Sprint(max))
	return nil
}

func (e *Exec) typeAssert(fr *frame, x *ssa.TypeAssert) Value {
	iv := e.get(fr, x.X).(*IfaceV)
	ok := false
	if iv.t != nil {
		if types.IsInterface(x.AssertedType) {
			ok = types.Implements(iv.t, x.AssertedType.Underlying().(*types.Interface))
		} else {
			ok = types.Identical(iv.t, x.AssertedType)
		}
	}
	var res Value
	if ok {
		if types.IsInterface(x.AssertedType) {
			res = iv
		} else {
			res = iv.v
		}
	} else {
		res = e.zero(x.AssertedType)
	}
	if x.CommaOk {
		return TupleV{res, e.st.Bool(ok)}
	}
	if !ok {
		e.mustHold(e.st.False, "type assertion failed", fr.fn.Name())
	}
	return res
}

// ---------------------------------------------------------------------------
// calls

func (e *Exec) resolveCall(fr *frame, c *ssa.CallCommon) (*FuncV, []Value) {
	var args []Value
	if c.IsInvoke() {
		iv, ok := e.get(fr, c.Value).(*IfaceV)
		if !ok {
			e.unsupported("invoke on non-interface value")
		}
		if iv.t == nil {
			e.mustHold(e.st.False, "nil dereference", "method call on nil interface "+c.Method.Name()+" in "+fr.fn.Name())
		}
		if op, isOp := iv.v.(*OpaqueV); isOp {
			for _, a := range c.Args {
				args = append(args, e.get(fr, a))
			}
			return &FuncV{ext: "opaque:" + op.kind + "." + c.Method.Name(), data: op}, args
		}
		ms := e.prog.MethodSets.MethodSet(iv.t)
		sel := ms.Lookup(c.Method.Pkg(), c.Method.Name())
		if sel == nil {
			e.unsupported("method not found: " + c.Method.Name() + " on " + iv.t.String())
		}
		fn := e.prog.MethodValue(sel)
		if fn == nil {
			e.unsupported("no method value for " + c.Method.Name())
		}
		args = append(args, iv.v)
		for _, a := range c.Args {
			args = append(args, e.get(fr, a))
		}
		return &FuncV{fn: fn}, args
	}
	for _, a := range c.Args {
		args = append(args, e.get(fr, a))
	}
	switch f := c.Value.(type) {
	case *ssa.Function:
		return &FuncV{fn: f}, args
	case *ssa.Builtin:
		return &FuncV{ext: "builtin:" + f.Name(), data: c}, args
	}
	fv, ok := e.get(fr, c.Value).(*FuncV)
	if !ok {
		e.unsupported("call of non-function value")
	}
	if fv.fn == nil && fv.ext == "" {
		e.mustHold(e.st.False, "nil dereference", "call of nil func in "+fr.fn.Name())
	}
	return fv, args
}

func (e *Exec) invoke(fv *FuncV, args []Value) Value {
	if fv.ext != "" {
		return e.extCall(fv, args)
	}
	return e.callFunc(fv.fn, args, fv.free)
}

func (e *Exec) doCall(fr *frame, c *ssa.CallCommon) Value {
	fv, args := e.resolveCall(fr, c)
	if strings.HasPrefix(fv.ext, "builtin:") {
		return e.builtin(fr, fv.ext[8:], c, args)
	}
	return e.invoke(fv, args)
}

func (e *Exec) builtin(fr *frame, name string, c *ssa.CallCommon, args []Value) Value {
	switch name {
	case "len":
		switch a := args[0].(type) {
		case *SliceV:
			return a.len
		case *StringV:
			_, n := e.stringArr(a)
			return n
		case *MapV:
			return e.mapLen(a)
		case *PtrV:
			at := c.Args[0].Type().Underlying().(*types.Pointer).Elem().Underlying().(*types.Array)
			return e.c64(at.Len())
		case *BytesV:
			return e.c64(int64(a.n))
		case *ArrayV:
			return e.c64(int64(len(a.e)))
		}
	case "cap":
		if a, ok := args[0].(*SliceV); ok {
			return a.cap
		}
	case "copy":
		return e.copyBuiltin(args[0], args[1])
	case "delete":
		m := args[0].(*MapV)
		if m.m == nil {
			return nil
		}
		k := args[1].(*Term)
		if m.m.global != "" {
			e.globalW[m.m.global] = true
		}
		m.m.present = e.st.StoreArr(m.m.present, k, e.st.False)
		return nil
	case "append":
		return e.appendBuiltin(fr, c, args)
	case "close":
		e.chanClose(args[0])
		return nil
	case "min", "max":
		r := args[0].(*Term)
		_, signed, _ := intWidth(c.Args[0].Type())
		for _, a := range args[1:] {
			t := a.(*Term)
			var lt *Term
			if signed {
				lt = e.st.Cmp(OpSlt, t, r)
			} else {
				lt = e.st.Cmp(OpUlt, t, r)
			}
			if name == "max" {
				lt = e.st.Not(e.st.Or(lt, e.st.Eq(t, r)))
			}
			r = e.st.Ite(lt, t, r)
		}
		return r
	case "clear":
		switch x := args[0].(type) {
		case *MapV:
			if x.m != nil {
				if x.m.global != "" {
					e.globalW[x.m.global] = true
				}
				x.m.present = e.st.ConstArr(ArrSort(x.m.kw, 0), 0)
			}
			return nil
		case *SliceV:
			if x.obj == nil {
				return nil
			}
			if x.len.op != OpConst || x.off.op != OpConst {
				e.unsupported("clear of a slice with symbolic bounds")
			}
			if bb, ok := e.load0(&PtrV{obj: x.obj, path: x.path}).(*BytesV); ok {
				for i := 0; i < int(x.len.val); i++ {
					bb.arr = e.st.StoreArr(bb.arr, e.c64(int64(int(x.off.val)+i)), e.st.Const(arrElem(bb.arr.w), 0))
				}
				return nil
			}
			av := e.load0(&PtrV{obj: x.obj, path: x.path}).(*ArrayV)
			et := c.Args[0].Type().Underlying().(*types.Slice).Elem()
			for i := 0; i < int(x.len.val); i++ {
				av.e[int(x.off.val)+i] = e.zero(et)
			}
			return nil
		}
		e.unsupported("clear")
		return nil
	case "recover":
		// a panic ends the path as an obligation, so no deferred function ever runs
		// with a panic in flight: recover() returns nil
		return &IfaceV{}
	case "print", "println":
		return nil
	}
	e.unsupported("builtin " + name)
	return nil
}

// copyBuiltin: element count must be concrete (case split by the harness) or
// the whole source (dst at least as long).
func (e *Exec) copyBuiltin(dstV, srcV Value) Value {
	dst := dstV.(*SliceV)
	// slices of structs / pointers / strings ...: element-wise, concrete bounds only
	if s, ok := srcV.(*SliceV); ok && dst.obj != nil && s.obj != nil {
		if da, isArr := e.load0(&PtrV{obj: dst.obj, path: dst.path}).(*ArrayV); isArr {
			sa, ok := e.load0(&PtrV{obj: s.obj, path: s.path}).(*ArrayV)
			if !ok {
				e.unsupported("copy between slices of different representation")
			}
			if dst.len.op != OpConst || dst.off.op != OpConst || s.len.op != OpConst || s.off.op != OpConst {
				e.unsupported("copy of non-integer elements with symbolic bounds")
			}
			n := int(dst.len.val)
			if int(s.len.val) < n {
				n = int(s.len.val)
			}
			vals := make([]Value, n) // all sources first: memmove semantics
			for i := 0; i < n; i++ {
				vals[i] = copyVal(sa.e[int(s.off.val)+i])
			}
			for i := 0; i < n; i++ {
				da.e[int(dst.off.val)+i] = vals[i]
			}
			return e.c64(int64(n))
		}
	}
	var sarr, soff, slen *Term
	switch s := srcV.(type) {
	case *SliceV:
		if s.obj == nil {
			return e.c64(0)
		}
		sarr, soff, slen = e.sliceBytes(s).arr, s.off, s.len
	case *StringV:
		sarr, slen = e.stringArr(s)
		soff = e.c64(0)
	default:
		e.unsupported("copy source")
	}
	n := e.st.Ite(e.st.Cmp(OpUlt, dst.len, slen), dst.len, slen)
	if n.op != OpConst {
		// try to resolve min by the solver through branching
		if e.Branch(e.st.Cmp(OpUlt, dst.len, slen)) {
			n = dst.len
		} else {
			n = slen
		}
	}
	if n.op == OpConst && n.val == 0 {
		return n
	}
	if dst.obj == nil {
		e.unsupported("copy into nil slice with n>0")
	}
	db := e.sliceBytes(dst)
	if n.op != OpConst {
		// symbolic count: one block-copy term (src is a value, so overlapping
		// source and destination behave like memmove)
		db.arr = e.st.ArrCopy(db.arr, sarr, dst.off, soff, n)
		return n
	}
	if n.val > 4096 {
		e.unsupported("copy of more than 4096 elements")
	}
	arr := db.arr
	// read all sources first (overlap-safe like memmove)
	vals := make([]*Term, n.val)
	for i := range vals {
		vals[i] = e.st.Select(sarr, e.st.Bin(OpAdd, soff, e.c64(int64(i))))
	}
	for i := range vals {
		arr = e.st.StoreArr(arr, e.st.Bin(OpAdd, dst.off, e.c64(int64(i))), vals[i])
	}
	db.arr = arr
	return n
}

// appendSym: append of integer elements when a length, capacity or offset is
// symbolic.  In place when the capacity suffices (a fork), else a fresh backing
// store of exactly the needed size (Go leaves the new capacity open; code that
// depends on it is outside the model).
func (e *Exec) appendSym(dst, src *SliceV, srcStr *StringV, k *Term, ew int) Value {
	var sarr, soff *Term
	if src != nil {
		if src.obj == nil {
			return dst
		}
		sarr, soff = e.sliceBytes(src).arr, src.off
	} else {
		sarr, _ = e.stringArr(srcStr)
		soff = e.c64(0)
	}
	if k.op == OpConst && k.val == 0 {
		return dst
	}
	newLen := e.st.Bin(OpAdd, dst.len, k)
	e.Assume(e.st.Cmp(OpUle, newLen, e.c64(1<<20)), "append: result of at most 2^20 elements")
	if dst.obj != nil && e.Branch(e.st.Cmp(OpUle, newLen, dst.cap)) {
		db := e.sliceBytes(dst)
		db.arr = e.st.ArrCopy(db.arr, sarr, e.st.Bin(OpAdd, dst.off, dst.len), soff, k)
		return &SliceV{obj: dst.obj, path: dst.path, off: dst.off, len: newLen, cap: dst.cap}
	}
	arr := e.st.ConstArr(ArrSort(64, ew), 0)
	if dst.obj != nil {
		arr = e.st.ArrCopy(arr, e.sliceBytes(dst).arr, e.c64(0), dst.off, dst.len)
	}
	arr = e.st.ArrCopy(arr, sarr, dst.len, soff, k)
	return &SliceV{obj: e.newObj(&BytesV{arr: arr, n: -1}, "append"), off: e.c64(0), len: newLen, cap: newLen}
}

// appendBuiltin: append(s, t...) with concrete lengths and capacities (Go's
// aliasing rule: in place when the capacity suffices, else a fresh array of
// exactly the needed size).
func (e *Exec) appendBuiltin(fr *frame, c *ssa.CallCommon, args []Value) Value {
	dst := args[0].(*SliceV)
	ew, isBytes := intElemWidth(c.Args[0].Type())
	var srcLen *Term
	var src *SliceV
	var srcStr *StringV
	switch x := args[1].(type) {
	case *SliceV:
		src, srcLen = x, x.len
	case *StringV:
		srcStr = x
		_, srcLen = e.stringArr(x)
	default:
		e.unsupported("append source")
	}
	if isBytes && (dst.len.op != OpConst || dst.cap.op != OpConst || srcLen.op != OpConst || dst.off.op != OpConst) {
		// integer elements, some length symbolic: block-copy terms instead of element-wise stores
		return e.appendSym(dst, src, srcStr, srcLen, ew)
	}
	if dst.len.op != OpConst || dst.cap.op != OpConst {
		// small symbolic lengths (e.g. make([]T, len(m)) for a bounded map): split by value
		same := dst.len == dst.cap
		d2 := *dst
		d2.len = e.enumSmall(dst.len, 64, "append: slice length")
		if same {
			d2.cap = d2.len
		} else {
			d2.cap = e.enumSmall(dst.cap, 64, "append: slice capacity")
		}
		dst = &d2
	}
	if srcLen.op != OpConst {
		srcLen = e.enumSmall(srcLen, 64, "append: source length")
	}
	if dst.off.op != OpConst {
		e.unsupported("append to a slice with a symbolic offset")
	}
	n, k, cp := int(dst.len.val), int(srcLen.val), int(dst.cap.val)
	if k == 0 {
		return dst
	}
	if n+k > 1<<16 {
		e.unsupported("append beyond 65536 elements")
	}
	out := &SliceV{obj: dst.obj, path: dst.path, off: dst.off, len: e.c64(int64(n + k)), cap: dst.cap}
	if n+k > cp || dst.obj == nil {
		// grow: fresh backing store, old elements copied
		if isBytes {
			arr := e.st.ConstArr(ArrSort(64, ew), 0)
			if dst.obj != nil {
				old := e.sliceBytes(dst)
				for i := 0; i < n; i++ {
					arr = e.st.StoreArr(arr, e.c64(int64(i)), e.st.Select(old.arr, e.st.Bin(OpAdd, dst.off, e.c64(int64(i)))))
				}
			}
			out = &SliceV{obj: e.newObj(&BytesV{arr: arr, n: -1}, "append"), off: e.c64(0), len: e.c64(int64(n + k)), cap: e.c64(int64(n + k))}
		} else {
			et := c.Args[0].Type().Underlying().(*types.Slice).Elem()
			a := &ArrayV{e: make([]Value, n+k)}
			for i := range a.e {
				a.e[i] = e.zero(et)
			}
			if dst.obj != nil {
				old := e.load0(&PtrV{obj: dst.obj, path: dst.path}).(*ArrayV)
				for i := 0; i < n; i++ {
					a.e[i] = copyVal(old.e[int(dst.off.val)+i])
				}
			}
			out = &SliceV{obj: e.newObj(a, "append"), off: e.c64(0), len: e.c64(int64(n + k)), cap: e.c64(int64(n + k))}
		}
	}
	// store the new elements
	if isBytes {
		db := e.sliceBytes(out)
		var sarr, soff *Term
		if src != nil {
			if src.obj == nil {
				return out
			}
			sarr, soff = e.sliceBytes(src).arr, src.off
		} else {
			sarr, _ = e.stringArr(srcStr)
			soff = e.c64(0)
		}
		vals := make([]*Term, k)
		for i := range vals {
			vals[i] = e.st.Select(sarr, e.st.Bin(OpAdd, soff, e.c64(int64(i))))
		}
		for i := range vals {
			db.arr = e.st.StoreArr(db.arr, e.st.Bin(OpAdd, out.off, e.c64(int64(n+i))), vals[i])
		}
		return out
	}
	if src == nil || src.off.op != OpConst {
		e.unsupported("append of this source to a non-byte slice")
	}
	da := e.load0(&PtrV{obj: out.obj, path: out.path}).(*ArrayV)
	sa := e.load0(&PtrV{obj: src.obj, path: src.path}).(*ArrayV)
	for i := 0; i < k; i++ {
		da.e[int(out.off.val)+n+i] = copyVal(sa.e[int(src.off.val)+i])
	}
	return out
}

// ctxCause returns the id of the nearest cancelled ancestor-or-self (0 = live).
func (e *Exec) ctxCause(id int) int {
	for id != 0 {
		ci := e.ctxs[id]
		if ci == nil {
			return 0
		}
		if ci.cancelled {
			return id
		}
		id = ci.parent
	}
	return 0
}

// wake runs every recorded goroutine that can make progress, until none can
// (deterministic "as soon as possible" schedule; every later schedule equals a
// later instant of the event that woke it).  Returns whether anything ran.
func (e *Exec) wake() bool {
	if e.lazy {
		// lazy schedule (vSchedLazy): runnable goroutines stay where they are until
		// the main goroutine blocks or the harness settles
		return false
	}
	return e.wakeNow()
}

func (e *Exec) wakeNow() bool {
	any := false
	for progress := true; progress; {
		progress = false
		for _, t := range e.threads {
			if t.done || t.running {
				continue
			}
			if t.started && t.ready != nil && !t.ready() {
				continue
			}
			t.running = true
			prev := e.curThread
			e.curThread = t.id
			if !t.started {
				t.started = true
				t.resume = make(chan bool)
				t.yield = make(chan interface{})
				go e.threadBody(t)
			} else {
				t.resume <- true
			}
			msg := <-t.yield
			e.curThread = prev
			t.running = false
			if msg != nil {
				panic(msg)
			}
			progress, any = true, true
		}
	}
	return any
}

func (e *Exec) threadBody(t *Thread) {
	defer func() {
		if r := recover(); r != nil {
			if _, ok := r.(threadAbort); ok {
				return
			}
			t.yield <- r // re-raised by the scheduler (path end, engine error)
		}
	}()
	e.events = append(e.events, Event{Kind: "thread-start"})
	e.invoke(t.fn, t.args)
	t.done = true
	e.events = append(e.events, Event{Kind: "thread-end"})
	t.yield <- nil
}

// block suspends the running SSA thread until ready() holds.
func (e *Exec) block(ready func() bool, what string) {
	if ready() {
		return
	}
	if e.curThread == 0 {
		for !ready() {
			if !e.wakeNow() {
				panic(pathEnd{"undecided", "main goroutine blocked forever (" + what + "): deadlock in the modelled schedule"})
			}
		}
		return
	}
	t := e.threads[e.curThread-1]
	for !ready() {
		t.ready = ready
		t.yield <- nil
		if ok := <-t.resume; !ok {
			panic(threadAbort{})
		}
	}
	t.ready = nil
}

// abortThreads ends the coroutines of a finished path.
func (e *Exec) abortThreads() {
	for _, t := range e.threads {
		if t.started && !t.done && !t.running {
			t.done = true
			t.resume <- false
		}
	}
}

// ---- channels -----------------------------------------------------------------

type chanItem struct {
	v  Value
	vc []int
}

type sendWait struct {
	v     Value
	vc    []int
	taken bool
}

type ChanObj struct {
	id     int
	cap    int
	buf    []chanItem
	sendq  []*sendWait
	closed bool
	rel    []int
	zero   Value
}

type ChanV struct{ c *ChanObj }

func (c *ChanObj) sender() *sendWait {
	for _, s := range c.sendq {
		if !s.taken {
			return s
		}
	}
	return nil
}

func (e *Exec) snapVC() []int {
	vc := append([]int(nil), e.vcs[e.curThread]...)
	e.vcs[e.curThread][e.curThread]++
	return vc
}

func (e *Exec) chanSend(v Value, val Value) {
	cv, ok := v.(*ChanV)
	if !ok {
		e.unsupported("send on this channel value")
	}
	if cv.c == nil {
		e.block(func() bool { return false }, "send on nil channel")
	}
	c := cv.c
	if c.closed {
		e.mustHold(e.st.False, "send on closed channel", "")
	}
	e.events = append(e.events, Event{Kind: "chan-send"})
	if c.cap > 0 {
		e.block(func() bool { return len(c.buf) < c.cap }, "send on full channel")
		c.buf = append(c.buf, chanItem{copyVal(val), e.snapVC()})
		e.wake()
		return
	}
	sw := &sendWait{v: copyVal(val), vc: e.snapVC()}
	c.sendq = append(c.sendq, sw)
	e.wake() // a blocked receiver may take it at once
	e.block(func() bool { return sw.taken }, "send on unbuffered channel without receiver")
}

func (e *Exec) chanRecv(v Value, commaOk bool) Value {
	if op, ok := v.(*OpaqueV); ok && op.kind == "donechan" {
		c := op.data.(*OpaqueV)
		e.block(func() bool { return e.ctxCause(c.id) != 0 }, "receive from Done() of a live context")
		e.events = append(e.events, Event{Kind: "recv-done", Args: []Value{op}})
		e.acquire(e.ctxRel[e.ctxCause(c.id)])
		if commaOk {
			return TupleV{&StructV{}, e.st.False}
		}
		return &StructV{}
	}
	cv, ok := v.(*ChanV)
	if !ok {
		e.unsupported("receive from this channel value")
	}
	if cv.c == nil {
		e.block(func() bool { return false }, "receive from nil channel")
	}
	c := cv.c
	e.block(func() bool { return len(c.buf) > 0 || c.sender() != nil || c.closed }, "receive from empty channel")
	val, okv := e.chanTake(c)
	e.wake()
	if commaOk {
		return TupleV{val, e.st.Bool(okv)}
	}
	return val
}

func (e *Exec) chanTake(c *ChanObj) (Value, bool) {
	e.events = append(e.events, Event{Kind: "chan-recv"})
	switch {
	case len(c.buf) > 0:
		it := c.buf[0]
		c.buf = c.buf[1:]
		e.acquire(it.vc)
		return it.v, true
	case c.sender() != nil:
		sw := c.sender()
		sw.taken = true
		e.acquire(sw.vc)
		return sw.v, true
	}
	e.acquire(c.rel)
	return copyVal(c.zero), false
}

func (e *Exec) chanClose(v Value) {
	cv, ok := v.(*ChanV)
	if !ok || cv.c == nil {
		e.mustHold(e.st.False, "close of nil channel", "")
	}
	if cv.c.closed {
		e.mustHold(e.st.False, "close of closed channel", "")
	}
	cv.c.closed = true
	cv.c.rel = e.release(cv.c.rel)
	e.wake()
}

// selectOp: cases that can proceed are "ready"; several ready cases are chosen
// among nondeterministically (a fresh symbolic choice, both explored).
func (e *Exec) selectOp(fr *frame, x *ssa.Select) Value {
	type cs struct {
		send bool
		ch   Value
		val  Value
	}
	cases := make([]cs, len(x.States))
	for i, st := range x.States {
		cases[i] = cs{send: st.Dir == types.SendOnly, ch: e.get(fr, st.Chan)}
		if st.Send != nil {
			cases[i].val = e.get(fr, st.Send)
		}
	}
	ready := func(i int) bool {
		c := cases[i]
		if op, ok := c.ch.(*OpaqueV); ok && op.kind == "donechan" {
			return e.ctxCause(op.data.(*OpaqueV).id) != 0
		}
		cv, ok := c.ch.(*ChanV)
		if !ok {
			e.unsupported("select on this channel value")
		}
		if cv.c == nil {
			return false
		}
		if c.send {
			return cv.c.cap > 0 && len(cv.c.buf) < cv.c.cap
		}
		return len(cv.c.buf) > 0 || cv.c.sender() != nil || cv.c.closed
	}
	anyReady := func() bool {
		for i := range cases {
			if ready(i) {
				return true
			}
		}
		return false
	}
	if x.Blocking {
		e.block(anyReady, "select without ready case")
	}
	chosen := -1
	var rd []int
	for i := range cases {
		if ready(i) {
			rd = append(rd, i)
		}
	}
	if len(rd) > 0 {
		chosen = rd[0]
		for k := 1; k < len(rd); k++ {
			e.nondetSeq++
			if e.Branch(e.st.Var(fmt.Sprintf("select.choice%d", e.nondetSeq), 0)) {
				chosen = rd[k]
			}
		}
	}
	res := TupleV{e.c64(int64(chosen)), e.st.False}
	for i, st := range x.States {
		if st.Dir != types.RecvOnly {
			continue
		}
		et := st.Chan.Type().Underlying().(*types.Chan).Elem()
		var val Value = e.zero(et)
		if i == chosen {
			r := e.chanRecv(cases[i].ch, true).(TupleV)
			val, res[1] = r[0], r[1]
			if _, isOp := cases[i].ch.(*OpaqueV); isOp {
				val = e.zero(et)
			}
		}
		res = append(res, val)
	}
	if chosen >= 0 && cases[chosen].send {
		e.chanSend(cases[chosen].ch, cases[chosen].val)
	}
	return res
}

// ---------------------------------------------------------------------------
// maps (keys: bit-vectors; values: bit-vectors or struct{})

func (e *Exec) makeMap(t types.Type) Value {
	mt := t.Underlying().(*types.Map)
	kw, _, ok := intWidth(mt.Key())
	if !ok || kw == 0 {
		return &OpaqueV{kind: "map:" + mt.String()}
	}
	vw := -1
	if w, _, ok := intWidth(mt.Elem()); ok && w > 0 {
		vw = w
	} else if st, ok := mt.Elem().Underlying().(*types.Struct); !ok || st.NumFields() != 0 {
		return &OpaqueV{kind: "map:" + mt.String()}
	}
	e.objSeq++
	m := &MapObj{kw: kw, vw: vw, id: e.objSeq}
	m.present = e.st.ConstArr(ArrSort(kw, 0), 0)
	if vw > 0 {
		m.vals = e.st.ConstArr(ArrSort(kw, vw), 0)
	}
	return &MapV{m: m}
}

func (e *Exec) mapUpdate(m *MapV, k, v Value) {
	if m.m == nil {
		e.mustHold(e.st.False, "assignment to entry in nil map", "")
	}
	kt := k.(*Term)
	if m.m.global != "" {
		e.globalW[m.m.global] = true
	}
	m.m.present = e.st.StoreArr(m.m.present, kt, e.st.True)
	if m.m.vw > 0 {
		m.m.vals = e.st.StoreArr(m.m.vals, kt, v.(*Term))
	}
	for _, c := range m.m.cands {
		if c == kt {
			return
		}
	}
	m.m.cands = append(m.m.cands, kt)
}

func (e *Exec) lookup(fr *frame, x *ssa.Lookup) Value {
	switch m := e.get(fr, x.X).(type) {
	case *MapV:
		mt := x.X.Type().Underlying().(*types.Map)
		zero := e.zero(mt.Elem())
		if m.m == nil {
			if x.CommaOk {
				return TupleV{zero, e.st.False}
			}
			return zero
		}
		k := e.get(fr, x.Index).(*Term)
		ok := e.st.Select(m.m.present, k)
		var val Value = zero
		if m.m.vw > 0 {
			val = e.st.Ite(ok, e.st.Select(m.m.vals, k), zero.(*Term))
		}
		if x.CommaOk {
			return TupleV{val, ok}
		}
		return val
	case *StringV:
		arr, n := e.stringArr(m)
		idx := e.toIdx(e.get(fr, x.Index).(*Term), x.Index.Type())
		e.mustHold(e.st.Cmp(OpUlt, idx, n), "string index out of range", fr.fn.Name())
		return e.st.Select(arr, idx)
	}
	e.unsupported("lookup")
	return nil
}

func (e *Exec) mapLen(m *MapV) *Term {
	if m.m == nil {
		return e.c64(0)
	}
	// sum over candidate keys that are present and distinct from earlier ones
	n := e.c64(0)
	for i, c := range m.m.cands {
		g := e.st.Select(m.m.present, c)
		for j := 0; j < i; j++ {
			g = e.st.And(g, e.st.Not(e.st.Eq(c, m.m.cands[j])))
		}
		n = e.st.Bin(OpAdd, n, e.st.Ite(g, e.c64(1), e.c64(0)))
	}
	return n
}

func (e *Exec) rangeOp(fr *frame, x *ssa.Range) Value {
	switch m := e.get(fr, x.X).(type) {
	case *MapV:
		if m.m == nil {
			return &IterV{}
		}
		return &IterV{m: m.m, cands: append([]*Term(nil), m.m.cands...)}
	}
	e.unsupported("range over non-map")
	return nil
}

func (e *Exec) nextOp(fr *frame, x *ssa.Next) Value {
	it := e.get(fr, x.Iter).(*IterV)
	if x.IsString {
		e.unsupported("range over string")
	}
	tt := x.Type().(*types.Tuple)
	zeroOf := func(t types.Type) Value {
		if b, ok := t.(*types.Basic); ok && b.Kind() == types.Invalid {
			return nil // component not used by the loop
		}
		return e.zero(t)
	}
	zk := zeroOf(tt.At(1).Type())
	zv := zeroOf(tt.At(2).Type())
	for it.m != nil && it.pos < len(it.cands) {
		c := it.cands[it.pos]
		it.pos++
		// Go semantics: an entry removed before being reached is not produced;
		// an entry is produced at most once.
		g := e.st.Select(it.m.present, c)
		for _, s := range it.seen {
			g = e.st.And(g, e.st.Not(e.st.Eq(c, s)))
		}
		if e.Branch(g) {
			it.seen = append(it.seen, c)
			var val Value = zv
			if it.m.vw > 0 {
				val = e.st.Select(it.m.vals, c)
			}
			return TupleV{e.st.True, c, val}
		}
	}
	return TupleV{e.st.False, zk, zv}
}

// ---------------------------------------------------------------------------
// helpers

func (e *Exec) constString(v Value) string {
	s, ok := v.(*StringV)
	if !ok || s.isSym {
		e.unsupported("intrinsic needs a constant string")
	}
	return s.lit
}

func (e *Exec) constInt(v Value) int64 {
	t, ok := v.(*Term)
	if !ok || t.op != OpConst {
		e.unsupported("intrinsic needs a constant integer")
	}
	return sx(t.val, t.w)
}

func sortedKeys(m map[string]bool) []string {
	out := make([]string, 0, len(m))
	for k := range m {
		out = append(out, k)
	}
	sort.Strings(out)
	return out
}

// ---------------------------------------------------------------------------
// vector-clock race detection over the executed interleaving

func (e *Exec) forkClock() {
	cur := e.vcs[e.curThread]
	n := len(e.threads) + 1
	for i := range e.vcs {
		for len(e.vcs[i]) < n {
			e.vcs[i] = append(e.vcs[i], 0)
		}
	}
	cur = e.vcs[e.curThread]
	child := append([]int(nil), cur...)
	child[n-1] = 1
	e.vcs = append(e.vcs, child)
	cur[e.curThread]++
}

func joinVC(a, b []int) []int {
	for len(a) < len(b) {
		a = append(a, 0)
	}
	for i := range b {
		if b[i] > a[i] {
			a[i] = b[i]
		}
	}
	return a
}

func (e *Exec) acquire(rel []int) {
	if rel == nil {
		return
	}
	e.vcs[e.curThread] = joinVC(e.vcs[e.curThread], rel)
}

func (e *Exec) release(rel []int) []int {
	r := joinVC(append([]int(nil), rel...), e.vcs[e.curThread])
	e.vcs[e.curThread][e.curThread]++
	return r
}

func locKey(p *PtrV) string {
	var sb strings.Builder
	fmt.Fprintf(&sb, "%d", p.obj.id)
	for _, pe := range p.path {
		if pe.sym != nil {
			sb.WriteString("/*")
		} else {
			fmt.Fprintf(&sb, "/%d", pe.i)
		}
	}
	return sb.String()
}

func (e *Exec) access(p *PtrV, write, atomic bool, where string) {
	if len(e.threads) == 0 || p.obj == nil {
		return
	}
	e.raceChecks++
	k := locKey(p)
	ls := e.locs[k]
	if ls == nil {
		ls = &locState{}
		e.locs[k] = ls
	}
	t := e.curThread
	vc := e.vcs[t]
	ordered := func(a *accessRec) bool {
		if a.thread == t {
			return true
		}
		return a.thread < len(vc) && a.clock <= vc[a.thread]
	}
	report := func(a *accessRec, kind string) {
		if a.atomic && atomic {
			return
		}
		msg := fmt.Sprintf("%s on %s: %s (thread %d) unordered with %s (thread %d)", kind, p.obj.name, where, t, a.where, a.thread)
		if e.raceSeen[msg] {
			return
		}
		e.raceSeen[msg] = true
		e.obligations = append(e.obligations, Obligation{Name: "norace", Kind: "race",
			PC: append([]*Term(nil), e.pcs...), Cond: e.st.False, Detail: msg})
	}
	if ls.lastW != nil && !ordered(ls.lastW) {
		if write {
			report(ls.lastW, "write/write race")
		} else {
			report(ls.lastW, "read/write race")
		}
	}
	if write {
		for i := range ls.reads {
			if !ordered(&ls.reads[i]) {
				report(&ls.reads[i], "write/read race")
			}
		}
		ls.lastW = &accessRec{t, vc[t], atomic, where}
		ls.reads = nil
	} else {
		ls.reads = append(ls.reads, accessRec{t, vc[t], atomic, where})
	}
}

// selectR is Select with solver-backed alias resolution: a store whose index
// cannot equal (or must equal) the read index under the current path condition
// is skipped (or taken).  The result is valid under the path condition, which
// only grows, so every later obligation carries the justification.
func (e *Exec) selectR(arr, idx *Term) *Term {
	t := e.st.Select(arr, idx)
	if !e.aliasResolve || t.op != OpSelect || t.a[0].op != OpStore {
		return t
	}
	cur := t.a[0]
	for cur.op == OpStore {
		eq := e.st.Eq(cur.a[1], idx)
		if eq.IsTrue() {
			return cur.a[2]
		}
		if eq.IsFalse() {
			cur = cur.a[0]
			continue
		}
		// a long run of stores at constant indices (an installed ROM image): one
		// query decides whether idx can hit any of them
		if cur.a[1].op == OpConst {
			run, end := 0, cur
			var any *Term
			for end.op == OpStore && end.a[1].op == OpConst && run < 4096 {
				q := e.st.Eq(end.a[1], idx)
				if any == nil {
					any = q
				} else {
					any = e.st.Or(any, q)
				}
				end = end.a[0]
				run++
			}
			if run > 4 {
				e.aliasQ++
				if e.feasible(any) == Unsat {
					cur = end
					continue
				}
			}
		}
		e.aliasQ++
		if e.feasible(eq) == Unsat {
			cur = cur.a[0]
			continue
		}
		if e.feasible(e.st.Not(eq)) == Unsat {
			return cur.a[2]
		}
		break
	}
	return e.st.Select(cur, idx)
}

// loopExitIsFalse: b ends in an If whose true successor can come back to b and
// whose false successor cannot (the false side leaves the loop).
var loopExitCache sync.Map

func loopExitIsFalse(b *ssa.BasicBlock) bool {
	if v, ok := loopExitCache.Load(b); ok {
		return v.(bool)
	}
	reach := func(from *ssa.BasicBlock) bool {
		seen := map[*ssa.BasicBlock]bool{}
		st := []*ssa.BasicBlock{from}
		for len(st) > 0 {
			x := st[len(st)-1]
			st = st[:len(st)-1]
			if x == b {
				return true
			}
			if seen[x] {
				continue
			}
			seen[x] = true
			st = append(st, x.Succs...)
		}
		return false
	}
	r := len(b.Succs) == 2 && reach(b.Succs[0]) && !reach(b.Succs[1])
	loopExitCache.Store(b, r)
	return r
}

func groundValue(v Value) bool {
	switch x := v.(type) {
	case *Term:
		return x.op == OpConst
	case *StructV:
		for _, f := range x.f {
			if !groundValue(f) {
				return false
			}
		}
		return true
	case *ArrayV:
		for _, f := range x.e {
			if !groundValue(f) {
				return false
			}
		}
		return true
	}
	return false
}

func groundPath(p []pathElem) bool {
	for _, pe := range p {
		if pe.sym != nil && pe.sym.op != OpConst {
			return false
		}
	}
	return true
}
