package main

// `zsym check -prop Cxx -tier quick|thorough`: runs the jobs of one property,
// replays counterexamples natively, applies the known-findings file, writes
// the evidence file and prints the verdict lines.

import (
	"encoding/json"
	"flag"
	"fmt"
	"os"
	"path/filepath"
	"regexp"
	"sort"
	"strconv"
	"strings"
	"time"
)

type Enc struct{ Tbl, Op int }

var tblNames = []string{"main", "cb", "ed", "dd", "fd", "ddcb", "fdcb"}

func (e Enc) String() string { return fmt.Sprintf("%s/%02x", tblNames[e.Tbl], e.Op) }

// allEncodings: the complete decode space, prefix bytes removed (1786 leaves).
func allEncodings() []Enc {
	var out []Enc
	for t := 0; t < 7; t++ {
		for op := 0; op < 256; op++ {
			if t == 0 && (op == 0xcb || op == 0xdd || op == 0xed || op == 0xfd) {
				continue
			}
			if (t == 3 || t == 4) && op == 0xcb {
				continue
			}
			out = append(out, Enc{t, op})
		}
	}
	return out
}

type Finding struct {
	Property   string `json:"property"`
	Obligation string `json:"obligation"` // regexp over obligation names
	Status     string `json:"status"`     // known | fixed
	Commit     string `json:"commit,omitempty"`
	What       string `json:"what"`
	Signature  string `json:"signature,omitempty"`
	Residual   string `json:"residual,omitempty"` // label regexp of the residual obligations that must hold
	WhyNot     string `json:"why_not_fixed,omitempty"`
}

func loadFindings() []Finding {
	b, err := os.ReadFile(filepath.Join(verifDir, "known_findings.json"))
	if err != nil {
		return nil
	}
	var f []Finding
	if err := json.Unmarshal(b, &f); err != nil {
		fmt.Fprintln(os.Stderr, "known_findings.json:", err)
		return nil
	}
	return f
}

type PropCheck struct {
	ID      string
	Dirs    []string
	Jobs    func(tier string, seed int64) []Job
	Only    func(job Job, assertName string) bool // which obligations belong to this property
	Post    func(c *CheckCtx)                     // extra verdict logic (structural checks etc.)
	Bounds  map[string]interface{}
	Assume  []string
	Stubs   []string
	Rule    string
	Exhaust bool
}

type Violation struct {
	Obligation string
	Replay     string
	Detail     string
}

type CheckCtx struct {
	P          *PropCheck
	Tier       string
	Seed       int64
	L          *Loaded
	R          *Runner
	Results    []JobResult
	Violations []Violation
	Known      []string
	Undecided  []string
	Extra      map[string]interface{}
	Samples    []interface{}
}

var props = map[string]*PropCheck{}

func register(p *PropCheck) { props[p.ID] = p }

func cmdCheck(args []string) int {
	fs := flag.NewFlagSet("check", flag.ExitOnError)
	id := fs.String("prop", "", "property id")
	tier := fs.String("tier", "quick", "quick|thorough")
	workers := fs.Int("workers", 16, "parallel workers")
	solver := fs.String("solver", "z3", "solver")
	fs.Parse(args)
	p, ok := props[*id]
	if !ok {
		fmt.Fprintln(os.Stderr, "unknown property", *id)
		return 2
	}
	seed := int64(0)
	if s := os.Getenv("VERIF_SEED"); s != "" {
		seed, _ = strconv.ParseInt(s, 10, 64)
	}
	start := time.Now()
	L, err := Load(p.Dirs)
	if err != nil {
		fmt.Fprintln(os.Stderr, "load failed:", err)
		// cannot analyse the tree (e.g. it does not compile): inconclusive, not a violation
		fmt.Printf("INCONCLUSIVE property=%s obligation=load reason=%q\n", p.ID, err.Error())
		writeEvidenceFailure(p, *tier, seed, err.Error(), time.Since(start))
		return 0
	}
	defer L.Close()
	tmo := 10000
	budget := 4 * time.Minute
	if *tier == "thorough" {
		tmo = 60000
		budget = 45 * time.Minute
	}
	if b := os.Getenv("ZSYM_BUDGET_S"); b != "" {
		if v, err := strconv.Atoi(b); err == nil {
			budget = time.Duration(v) * time.Second
		}
	}
	r := &Runner{L: L, solver: *solver, timeoutMs: tmo, workers: *workers, audit: *tier == "thorough", deadline: start.Add(budget)}
	if *tier != "thorough" {
		r.jobBudget = 90
	}
	c := &CheckCtx{P: p, Tier: *tier, Seed: seed, L: L, R: r, Extra: map[string]interface{}{}}
	// replay files of earlier runs of this property are stale by now
	for _, pat := range []string{p.ID + "-*.json"} {
		old, _ := filepath.Glob(filepath.Join(verifDir, "replays", pat))
		for _, f := range old {
			os.Remove(f)
		}
	}
	jobs := p.Jobs(*tier, seed)
	c.Results = r.RunJobs(jobs)
	if os.Getenv("ZSYM_SLOW") != "" {
		rs := append([]JobResult(nil), c.Results...)
		sort.Slice(rs, func(i, j int) bool { return rs[i].Wall > rs[j].Wall })
		for i := 0; i < 15 && i < len(rs); i++ {
			fmt.Fprintf(os.Stderr, "slow: %-40s %6.1fs paths=%d queries=%d solver=%.2fs\n", rs[i].Job.Label, rs[i].Wall.Seconds(), rs[i].Paths, rs[i].Queries, rs[i].SolverTime.Seconds())
		}
	}
	c.evaluate()
	if p.Post != nil {
		p.Post(c)
	}
	if *tier == "thorough" {
		c.crossSolvers()
		c.auditSimplifier()
	}
	c.writeEvidence(time.Since(start))
	for _, k := range c.Known {
		fmt.Println(k)
	}
	seenU := map[string]bool{}
	for _, u := range c.Undecided {
		if !seenU[u] {
			seenU[u] = true
			fmt.Printf("INCONCLUSIVE property=%s %s\n", p.ID, u)
		}
	}
	if len(c.Violations) > 0 {
		for _, v := range c.Violations {
			fmt.Printf("VIOLATION property=%s replay=%s obligation=%s %s\n", p.ID, v.Replay, v.Obligation, v.Detail)
		}
		return 1
	}
	fmt.Printf("OK property=%s tier=%s wall=%.1fs\n", p.ID, *tier, time.Since(start).Seconds())
	return 0
}

// evaluate: select obligations, replay sat ones natively, apply known findings.
func (c *CheckCtx) evaluate() {
	findings := loadFindings()
	type satRef struct {
		jr  *JobResult
		obl *OblResult
	}
	var sats []satRef
	for i := range c.Results {
		jr := &c.Results[i]
		if jr.Err != "" {
			c.Undecided = append(c.Undecided, fmt.Sprintf("obligation=%s reason=%q", jr.Job.Label, jr.Err))
		}
		for _, u := range jr.Undecided {
			c.Undecided = append(c.Undecided, fmt.Sprintf("obligation=%s reason=%q", jr.Job.Label, u))
		}
		// natively confirmed non-termination (termination probe)
		for _, rf := range jr.Hangs {
			obl := jr.Job.Label + "/terminates"
			path, err := writeReplay(rf, c.P.ID, obl)
			if err == nil {
				c.Violations = append(c.Violations, Violation{obl, path, rf.Detail})
			}
		}
		// vacuity guard: a job none of whose paths reaches its end decides nothing
		if jr.Err == "" && jr.OkPaths == 0 && jr.PanicPaths == 0 && len(jr.Undecided) == 0 {
			c.Undecided = append(c.Undecided, fmt.Sprintf("obligation=%s reason=%q", jr.Job.Label,
				fmt.Sprintf("vacuous: none of the %d paths reached the end of the harness (%d infeasible, %d bounded)", jr.Paths, jr.Infeasible, jr.Bounded)))
		}
		kept := jr.Obls[:0]
		for _, o := range jr.Obls {
			name := o.Name[len(jr.Job.Label)+1:]
			if k := strings.Index(name, "@"); k >= 0 {
				name = name[:k]
			}
			if c.P.Only != nil && !c.P.Only(jr.Job, name) {
				continue
			}
			kept = append(kept, o)
		}
		jr.Obls = kept
		for k := range jr.Obls {
			o := &jr.Obls[k]
			switch o.Verdict {
			case "sat":
				sats = append(sats, satRef{jr, o})
			case "unknown":
				c.Undecided = append(c.Undecided, fmt.Sprintf("obligation=%s reason=%q", o.Name, "solver unknown/timeout "+o.Detail))
			}
		}
	}
	if len(sats) == 0 {
		return
	}
	// a broken tree can produce thousands of counterexamples; replaying a sample
	// is enough to report the violation (the rest is counted in the evidence)
	const maxReplay = 48
	if len(sats) > maxReplay {
		c.Extra["counterexamples_not_replayed"] = len(sats) - maxReplay
		// keep a spread over the jobs rather than the first job's paths only
		seenJob := map[string]int{}
		var keep, rest []satRef
		for _, sr := range sats {
			if seenJob[sr.jr.Job.Label] < 2 && len(keep) < maxReplay {
				seenJob[sr.jr.Job.Label]++
				keep = append(keep, sr)
			} else {
				rest = append(rest, sr)
			}
		}
		for _, sr := range rest {
			if len(keep) >= maxReplay {
				break
			}
			keep = append(keep, sr)
		}
		sats = keep
	}
	// native replay, grouped by harness dir
	byDir := map[string][]int{}
	paths := make([]string, len(sats))
	for i, s := range sats {
		p, err := writeReplay(s.obl.Replay, c.P.ID, s.obl.Name)
		if err != nil {
			c.Undecided = append(c.Undecided, fmt.Sprintf("obligation=%s reason=%q", s.obl.Name, "cannot write replay: "+err.Error()))
			continue
		}
		paths[i] = p
		byDir[s.jr.Job.Dir] = append(byDir[s.jr.Job.Dir], i)
	}
	reproduced := make([]bool, len(sats))
	// race obligations: replayed one by one under the race detector
	for dir, idxs := range byDir {
		var rest []int
		for _, i := range idxs {
			if sats[i].obl.Replay.Failed[0] != "norace" {
				rest = append(rest, i)
				continue
			}
			_, out, _ := c.L.RunNative(dir, []string{paths[i]}, true)
			ok := strings.Contains(out, "DATA RACE")
			status := "reproduced under go test -race (WARNING: DATA RACE)"
			if !ok {
				status = "NOT reproduced under go test -race: " + lastLines(out, 3)
			}
			sats[i].obl.Replay.Native = status
			writeReplay(sats[i].obl.Replay, c.P.ID, sats[i].obl.Name)
			reproduced[i] = ok
		}
		byDir[dir] = rest
	}
	for dir, idxs := range byDir {
		if len(idxs) == 0 {
			continue
		}
		var files []string
		for _, i := range idxs {
			files = append(files, paths[i])
		}
		res, out, err := c.L.RunNative(dir, files, false)
		if err != nil {
			for _, i := range idxs {
				c.Undecided = append(c.Undecided, fmt.Sprintf("obligation=%s reason=%q", sats[i].obl.Name, "native replay failed to run: "+err.Error()+" "+lastLines(out, 5)))
			}
			continue
		}
		for k, i := range idxs {
			nr := res[k]
			want := sats[i].obl.Replay.Failed[0]
			ok := false
			if want == "nopanic" {
				ok = nr.Panic != ""
			} else {
				for _, f := range nr.Failed {
					if f == want {
						ok = true
					}
				}
			}
			status := "reproduced"
			if !ok {
				status = fmt.Sprintf("NOT reproduced (native failed=%v unmet=%d panic=%q)", nr.Failed, nr.Unmet, nr.Panic)
			}
			sats[i].obl.Replay.Native = status
			writeReplay(sats[i].obl.Replay, c.P.ID, sats[i].obl.Name)
			reproduced[i] = ok
		}
	}
	for i, s := range sats {
		if paths[i] == "" {
			continue
		}
		if !reproduced[i] {
			c.Undecided = append(c.Undecided, fmt.Sprintf("obligation=%s reason=%q", s.obl.Name, "ENCODER-MISMATCH: counterexample "+paths[i]+" did not reproduce natively: "+s.obl.Replay.Native))
			continue
		}
		// known finding?
		matched := false
		for _, f := range findings {
			if f.Property != c.P.ID || f.Status != "known" {
				continue
			}
			if ok, _ := regexp.MatchString(f.Obligation, s.obl.Name); ok {
				matched = true
				if c.residualHolds(f) {
					c.Known = append(c.Known, fmt.Sprintf("KNOWN-FINDING: property=%s %s [%s]", c.P.ID, f.What, s.obl.Name))
				} else {
					c.Violations = append(c.Violations, Violation{s.obl.Name, paths[i], "deviates from the listed known finding: " + f.What})
				}
				break
			}
		}
		if !matched {
			c.Violations = append(c.Violations, Violation{s.obl.Name, paths[i], s.obl.Detail})
		}
	}
	// dedupe KNOWN lines per finding text
	sort.Strings(c.Known)
	c.Known = compactKnown(c.Known)
}

func compactKnown(in []string) []string {
	seen := map[string]int{}
	var out []string
	for _, k := range in {
		base := k
		if i := strings.LastIndex(k, " ["); i >= 0 {
			base = k[:i]
		}
		if seen[base] == 0 {
			out = append(out, k)
		}
		seen[base]++
	}
	for i, k := range out {
		base := k
		if j := strings.LastIndex(k, " ["); j >= 0 {
			base = k[:j]
		}
		if n := seen[base]; n > 1 {
			out[i] = fmt.Sprintf("%s (+%d more obligations)", k, n-1)
		}
	}
	return out
}

// residualHolds: every obligation whose label matches the finding's residual
// pattern must be discharged (the deviation is exactly the listed one).
func (c *CheckCtx) residualHolds(f Finding) bool {
	if f.Residual == "" {
		return false
	}
	re, err := regexp.Compile(f.Residual)
	if err != nil {
		return false
	}
	n := 0
	for _, jr := range c.Results {
		for _, o := range jr.Obls {
			if re.MatchString(o.Name) {
				n++
				if o.Verdict != "unsat" && o.Verdict != "trivial" && o.Verdict != "identity" {
					return false
				}
			}
		}
	}
	return n > 0
}

// structural records a violation that has no input model (footprint / shape
// findings); the replay file describes it.
func (c *CheckCtx) structural(obl, detail string) {
	rf := &ReplayFile{Dir: c.P.Dirs[0], Harness: "structural", Detail: detail, Failed: []string{obl}}
	p, _ := writeReplay(rf, c.P.ID, obl)
	c.Violations = append(c.Violations, Violation{obl, p, detail})
}

func lastLines(s string, n int) string {
	ls := strings.Split(strings.TrimSpace(s), "\n")
	if len(ls) > n {
		ls = ls[len(ls)-n:]
	}
	return strings.Join(ls, " | ")
}

func (c *CheckCtx) crossSolvers() {
	// thorough tier: re-run all jobs with the two other solvers; verdicts must agree.
	type key struct{ name string }
	base := map[string]string{}
	for _, jr := range c.Results {
		for _, o := range jr.Obls {
			base[o.Name] = o.Verdict
		}
	}
	dis := 0
	checked := 0
	jobsRechecked := 0
	heavy := 0
	var used []string
	for _, sv := range []string{"z3-new", "cvc5"} {
		r2 := &Runner{L: c.L, solver: sv, timeoutMs: c.R.timeoutMs, workers: c.R.workers, deadline: c.R.deadline}
		// at most maxCross jobs are re-run per solver (an even spread over the job list)
		const maxCross = 800
		step := 1
		if len(c.Results) > maxCross {
			step = (len(c.Results) + maxCross - 1) / maxCross
		}
		var jobs []Job
		heavy = 0
		for i := 0; i < len(c.Results); i += step {
			// jobs with hundreds of paths are re-decided by the deciding solver's own
			// portfolio only: a second and third full exploration costs tens of minutes
			if c.Results[i].Paths > 400 {
				heavy++
				continue
			}
			jobs = append(jobs, c.Results[i].Job)
		}
		jobsRechecked = len(jobs)
		res := r2.RunJobs(jobs)
		used = append(used, sv)
		for _, jr := range res {
			if jr.Err != "" {
				c.Undecided = append(c.Undecided, fmt.Sprintf("obligation=%s reason=%q", jr.Job.Label, sv+": "+jr.Err))
			}
			for _, o := range jr.Obls {
				b, ok := base[o.Name]
				if !ok {
					continue
				}
				checked++
				if o.Verdict == "trivial" || b == "trivial" || o.Verdict == "identity" || b == "identity" {
					continue
				}
				if o.Verdict != b {
					dis++
					c.Undecided = append(c.Undecided, fmt.Sprintf("obligation=%s reason=%q", o.Name, fmt.Sprintf("solver disagreement: z3=%s %s=%s", b, sv, o.Verdict)))
				}
			}
		}
	}
	c.Extra["cross_solver"] = map[string]interface{}{"solvers": used, "obligations_rechecked": checked, "disagreements": dis,
		"jobs_rechecked_per_solver": jobsRechecked, "jobs_total": len(c.Results), "jobs_with_more_than_400_paths_not_rechecked": heavy}
}

func (c *CheckCtx) auditSimplifier() {
	log := c.R.auditLog
	if len(log) == 0 {
		return
	}
	sol, err := NewSolver("z3", 60000)
	if err != nil {
		return
	}
	defer sol.Close()
	st := NewStore()
	bad, unk, large := 0, 0, 0
	// lemma instances are terms from other stores; print them directly
	n := 0
	seen := map[uint64]bool{}
	for _, a := range log {
		h1, _ := termHash(a.raw)
		h2, _ := termHash(a.res)
		k := h1*31 + h2
		if seen[k] {
			continue
		}
		seen[k] = true
		n++
		var neq *Term
		if a.raw.w < 0 {
			continue
		}
		if termSize(a.raw, 3000) >= 3000 {
			large++ // e.g. lookups through a whole file image: skipped, counted
			continue
		}
		neq = &Term{op: OpNot, w: 0, a: []*Term{{op: OpEq, w: 0, a: []*Term{a.raw, a.res}, id: -2}}, id: -3}
		_ = st
		v, _, _ := sol.Check([]*Term{renumber(neq)}, nil)
		switch v {
		case Sat:
			bad++
			c.Undecided = append(c.Undecided, fmt.Sprintf("obligation=simplifier reason=%q", "rewrite not valid: "+a.raw.String()+" -> "+a.res.String()))
		case Unknown:
			unk++
		}
	}
	c.Extra["simplifier_lemmas"] = map[string]interface{}{"distinct_instances": n, "invalid": bad, "unknown": unk, "skipped_larger_than_3000_nodes": large}
	if unk > 0 {
		c.Undecided = append(c.Undecided, fmt.Sprintf("obligation=simplifier reason=%q", fmt.Sprintf("%d rewrite instances could not be audited (solver unknown)", unk)))
	}
}

// renumber gives every node of a foreign DAG a fresh unique id so that the
// printer's memo table is consistent.
func renumber(t *Term) *Term {
	memo := map[*Term]*Term{}
	next := 0
	var rec func(t *Term) *Term
	rec = func(t *Term) *Term {
		if n, ok := memo[t]; ok {
			return n
		}
		n := &Term{op: t.op, w: t.w, val: t.val, name: t.name, p1: t.p1, p2: t.p2}
		for _, a := range t.a {
			n.a = append(n.a, rec(a))
		}
		n.id = next
		next++
		memo[t] = n
		return n
	}
	return rec(t)
}

func writeEvidenceFailure(p *PropCheck, tier string, seed int64, msg string, wall time.Duration) {
	ev := map[string]interface{}{
		"property_id": p.ID, "tier": tier, "seed": seed, "level": "model_checking",
		"coverage": map[string]interface{}{"evaluations": 0, "distinct_nontrivial": 0, "rule": "load failed: " + msg, "samples": []interface{}{},
			"obligations": 0, "discharged": 0, "undecided": 1},
		"wall_s": wall.Seconds(), "violations": 0,
	}
	b, _ := jsonIndent(ev)
	os.MkdirAll(filepath.Join(verifDir, "evidence"), 0o755)
	os.WriteFile(filepath.Join(verifDir, "evidence", p.ID+".json"), b, 0o644)
}

func (c *CheckCtx) writeEvidence(wall time.Duration) {
	queries, feas, paths, instrs, witnesses := 0, 0, 0, 0, 0
	obls, discharged, trivial, undec, sat, identity := 0, 0, 0, 0, 0, 0
	distinct := map[uint64]bool{}
	var st time.Duration
	maxTrace := 0
	infeasible, panics := 0, 0
	raceChecks := 0
	for _, jr := range c.Results {
		raceChecks += jr.RaceChecks
		queries += jr.Queries
		feas += jr.FeasQ
		paths += jr.Paths
		instrs += jr.Instrs
		witnesses += jr.Witness
		st += jr.SolverTime
		infeasible += jr.Infeasible
		panics += jr.PanicPaths
		if jr.MaxTrace > maxTrace {
			maxTrace = jr.MaxTrace
		}
		for _, o := range jr.Obls {
			obls++
			switch o.Verdict {
			case "unsat":
				discharged++
				if o.NVars > 0 {
					distinct[o.Hash] = true
				}
			case "identity":
				discharged++
				identity++
				if o.NVars > 0 {
					distinct[o.Hash] = true
				}
			case "trivial":
				discharged++
				trivial++
			case "sat":
				sat++
				if o.NVars > 0 {
					distinct[o.Hash] = true
				}
			default:
				undec++
			}
		}
	}
	// samples: a few jobs written out (harness, parameters, paths, some obligations)
	var samples []interface{}
	samples = append(samples, c.Samples...)
	step := len(c.Results)/5 + 1
	for i := 0; i < len(c.Results); i += step {
		jr := c.Results[i]
		var obs []interface{}
		nontriv := 0
		for _, o := range jr.Obls {
			if o.Verdict == "trivial" && nontriv+len(obs) >= 2 {
				continue
			}
			if o.Verdict != "trivial" {
				nontriv++
			}
			obs = append(obs, map[string]interface{}{"obligation": o.Name, "verdict": o.Verdict, "ms": o.Ms, "free_variables": o.NVars})
			if len(obs) >= 5 {
				break
			}
		}
		samples = append(samples, map[string]interface{}{"job": jr.Job.Label, "harness": jr.Job.Harness, "params": jr.Job.Params,
			"paths": jr.Paths, "completed_paths": jr.OkPaths, "infeasible_paths": jr.Infeasible, "queries": jr.Queries,
			"ssa_instructions": jr.Instrs, "race_checked_accesses": jr.RaceChecks, "obligations": obs})
	}
	if len(samples) == 0 {
		samples = append(samples, map[string]interface{}{"note": "no obligation produced"})
	}
	cov := map[string]interface{}{
		"evaluations":                 queries,
		"distinct_nontrivial":         len(distinct),
		"rule":                        c.P.Rule + " — non-trivial = the obligation relates terms with at least one free variable and was discharged by the solver (unsat) or by syntactic identity of the hash-consed terms of the two sides; distinct by structural hash",
		"samples":                     samples,
		"obligations":                 obls,
		"discharged":                  discharged,
		"trivially_true":              trivial,
		"discharged_by_term_identity": identity,
		"undecided":                   undec + len(c.Undecided),
		"counterexamples":             sat,
		"jobs":                        len(c.Results),
		"paths":                       paths,
		"infeasible_paths":            infeasible,
		"panic_paths":                 panics,
		"feasibility_queries":         feas,
		"ssa_instructions":            instrs,
		"max_bus_trace":               maxTrace,
		"race_checked_accesses":       raceChecks,
		"vacuity_witnesses":           witnesses,
		"functions_encoded":           sortedFuncs(c.Results),
		"bounds":                      c.P.Bounds,
		"stubs":                       c.P.Stubs,
		"solver":                      map[string]string{"deciding": c.R.solver, "z3": "4.8.12", "portfolio": "queries z3 4.8.12 leaves unknown after 250 ms incremental + 2 s fresh context go to z3 5.1.0, then cvc5 1.0.3, then z3 again with the full timeout"},
		"queries_decided_by_fallback": fallbackTotals(c.Results),
		"solver_time_s":               st.Seconds(),
		"load_time_s":                 c.L.loadTime.Seconds(),
		"exhaustive":                  c.P.Exhaust && len(c.Undecided) == 0,
		"known_findings":              c.Known,
		"inconclusive":                c.Undecided,
	}
	for k, v := range c.Extra {
		cov[k] = v
	}
	ev := map[string]interface{}{
		"property_id": c.P.ID, "tier": c.Tier, "seed": c.Seed, "level": "model_checking",
		"coverage": cov, "assumptions": c.P.Assume, "wall_s": wall.Seconds(), "violations": len(c.Violations),
	}
	b, _ := jsonIndent(ev)
	os.MkdirAll(filepath.Join(verifDir, "evidence"), 0o755)
	os.WriteFile(filepath.Join(verifDir, "evidence", c.P.ID+".json"), b, 0o644)
}

func cmdReplay(args []string) int {
	if len(args) < 1 {
		fmt.Fprintln(os.Stderr, "usage: zsym replay <file>")
		return 2
	}
	b, err := os.ReadFile(args[0])
	if err != nil {
		fmt.Fprintln(os.Stderr, err)
		return 2
	}
	var rf ReplayFile
	if err := json.Unmarshal(b, &rf); err != nil {
		fmt.Fprintln(os.Stderr, err)
		return 2
	}
	if rf.Harness == "structural" {
		// footprint / shape findings have no input model: replaying means
		// re-running the analysis of that property on the current tree
		fmt.Printf("structural finding: %s\n", rf.Detail)
		return cmdCheck([]string{"-prop", rf.Property, "-tier", "quick"})
	}
	L, err := Load([]string{rf.Dir})
	if err != nil {
		fmt.Fprintln(os.Stderr, err)
		return 2
	}
	defer L.Close()
	race := len(rf.Failed) > 0 && rf.Failed[0] == "norace"
	if len(rf.Failed) > 0 && rf.Failed[0] == "terminates" {
		L.watchdog = "10s"
		res, _, _ := L.RunNative(rf.Dir, []string{args[0]}, false)
		if len(res) == 1 && res[0].Hang {
			fmt.Printf("harness=%s params=%v: did not return within the 10 s watchdog\n", rf.Harness, rf.Params)
			fmt.Printf("VIOLATION property=%s replay=%s\n", rf.Property, args[0])
			return 1
		}
		fmt.Printf("harness=%s params=%v: returned within the watchdog\n", rf.Harness, rf.Params)
		return 0
	}
	res, out, err := L.RunNative(rf.Dir, []string{args[0]}, race)
	if race {
		if strings.Contains(out, "DATA RACE") {
			fmt.Printf("harness=%s params=%v: go test -race reports a data race\n", rf.Harness, rf.Params)
			fmt.Printf("VIOLATION property=%s replay=%s\n", rf.Property, args[0])
			return 1
		}
		fmt.Printf("harness=%s params=%v: no data race reported\n", rf.Harness, rf.Params)
		return 0
	}
	if err != nil {
		fmt.Println(out)
		fmt.Fprintln(os.Stderr, err)
		return 2
	}
	fmt.Printf("harness=%s params=%v failed=%v unmet_assumptions=%d panic=%q\n", rf.Harness, rf.Params, res[0].Failed, res[0].Unmet, res[0].Panic)
	if len(res[0].Failed) > 0 || res[0].Panic != "" {
		fmt.Printf("VIOLATION property=%s replay=%s\n", rf.Property, args[0])
		return 1
	}
	return 0
}

func isHarnessFunc(full string) bool {
	i := strings.LastIndex(full, ".")
	n := full[i+1:]
	return strings.HasPrefix(n, "v") || strings.HasPrefix(n, "V") || strings.HasPrefix(n, "spec")
}

// stepCallCycle looks for a cycle in the static call graph below (*CPU).Step.
func stepCallCycle(L *Loaded) string {
	pkg := L.pkgs["z80"]
	if pkg == nil {
		return ""
	}
	cpuT := pkg.Type("CPU")
	if cpuT == nil {
		return ""
	}
	step := L.prog.LookupMethod(typesPointer(cpuT.Type()), pkg.Pkg, "Step")
	if step == nil {
		return ""
	}
	return findCycle(step)
}

// termSize counts DAG nodes up to a cap.
func termSize(t *Term, cap int) int {
	seen := map[*Term]bool{}
	var rec func(t *Term)
	rec = func(t *Term) {
		if len(seen) >= cap || seen[t] {
			return
		}
		seen[t] = true
		for _, a := range t.a {
			rec(a)
		}
	}
	rec(t)
	return len(seen)
}

func fallbackTotals(rs []JobResult) map[string]int {
	t := map[string]int{}
	for _, r := range rs {
		for k, v := range r.Fallbacks {
			t[k] += v
		}
	}
	return t
}
