#!/bin/sh
# Re-evaluate every stored seeded change against the current checks: each check
# recorded in the seed's meta.json as catching it (caught_by) must still catch it.
# usage: tools/reseed.sh [repo-dir]   (default /repo; use a snapshot for background runs)
cd "$(dirname "$0")/.." || exit 2
REPO="${1:-/repo}"
export ZSYM_REPO="$REPO"
fail=0
for d in seeded/*/; do
  name=$(basename "$d")
  props=$(python3 -c "import json;d=json.load(open('$d/meta.json'));print('SKIP' if d.get('not_claimed') else ' '.join(d.get('caught_by') or [d['property']]))")
  if [ "$props" = SKIP ]; then echo "$name: not claimed (see meta.json)"; continue; fi
  if ! git -C "$REPO" apply "$PWD/$d/patch.diff" 2>/dev/null; then echo "$name: patch does not apply"; fail=1; continue; fi
  for prop in $props; do
    out=$(./check.sh "$prop" quick 2>&1); rc=$?
    n=$(echo "$out" | grep -c '^VIOLATION')
    if [ "$rc" = 1 ] && [ "$n" -gt 0 ]; then echo "$name: caught by $prop ($n violations)"; else echo "$name: MISSED by $prop (exit $rc) $(echo "$out" | grep -c INCONCLUSIVE) inconclusive"; fail=1; fi
  done
  git -C "$REPO" checkout -- . >/dev/null 2>&1
done
exit $fail
