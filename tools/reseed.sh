#!/bin/sh
# Re-evaluate every stored seeded change against the current checks.
# usage: tools/reseed.sh [repo-dir]   (default /repo; use a snapshot for background runs)
cd "$(dirname "$0")/.." || exit 2
REPO="${1:-/repo}"
export ZSYM_REPO="$REPO"
fail=0
for d in seeded/*/; do
  name=$(basename "$d")
  prop=$(python3 -c "import json;print(json.load(open('$d/meta.json'))['property'])")
  if ! git -C "$REPO" apply "$PWD/$d/patch.diff" 2>/dev/null; then echo "$name: patch does not apply"; fail=1; continue; fi
  out=$(./check.sh "$prop" quick 2>&1); rc=$?
  git -C "$REPO" checkout -- . >/dev/null 2>&1
  n=$(echo "$out" | grep -c '^VIOLATION')
  if [ "$rc" = 1 ] && [ "$n" -gt 0 ]; then echo "$name: caught by $prop ($n violations)"; else echo "$name: MISSED by $prop (exit $rc) $(echo "$out" | grep -c INCONCLUSIVE) inconclusive"; fail=1; fi
done
exit $fail
