#!/usr/bin/env python3
# Generates /verif/MANIFEST.json from the table below (kept in one place so
# that claimed checks, not_applicable and notes stay consistent).
import json, os
V = os.path.dirname(os.path.dirname(os.path.abspath(__file__)))
props = [json.loads(l)['id'] for l in open(os.path.join(V, 'properties.jsonl'))]

TECH = "symbolic execution of the real Go code from go/ssa into SMT-LIB2 (bit-vectors + arrays), z3 decides each obligation for all values within the stated bounds; counterexamples replayed natively with go test -overlay"

checks = {
 "C01": dict(text="Bounded symbolic model checking: for each of the 1786 leaf encodings (opcode bytes concrete, enumerated exhaustively) one CPU.Step is executed symbolically from a fully symbolic pre-state and every component of the post-state is compared with an independent reference model; unsat = holds for every pre-state of that encoding. Right level because one Step is loop-free integer code whose whole input space fits one SMT query.",
             note="Bound: 1 Step, Interrupt == nil. Trusted: go/ssa lowering, the engine's operator semantics and simplifier (thorough: audited + 3 solvers), z3, the reference model vSpecStep (DESIGN.md §4, App. A) incl. its relaxations (SCF/CCF and BIT-on-memory bits 3/5, block-I/O undocumented flags, DDCB R count, RETI IFF1, halted indication). Stubs: ideal-RAM bus, log.Printf, bits.OnesCount8.", ref="§5 C01"),
 "C02": dict(text="Same symbolic run restricted to the ~560 ALU/rotate/bit encodings; A, operand and F are SMT variables so one query covers the complete 2^24 cube per encoding; plus (thorough and quick) oracle-free cross-encoding agreement obligations.",
             note="As C01. The operand-form agreement obligations do not depend on the reference model.", ref="§5 C02"),
 "C03": dict(text="Same symbolic run for the 16-bit arithmetic encodings: 2^32 operand pairs x F decided per encoding by one query each.", note="As C01; model computes with 17/18-bit arithmetic, implementation with a 32-bit carry vector.", ref="§5 C03"),
 "C04": dict(text="Single symbolic Steps of all control-flow/stack encodings against the model (all F, B, PC, SP incl. wrap and stack overlapping the instruction) plus 2-Step compositions CALL;RET / RST;RET / PUSH;POP from arbitrary states.", note="As C01. Compositions assume the second instruction is still intact after the first one's stack writes.", ref="§5 C04"),
 "C05": dict(text="Per Step the ordered bus trace recorded by the symbolic bus must equal the model's trace as a multiset of (kind,address,value) with equal length, the port log must be equal in order, and no address may be read after it was written; decided for all pre-states of all 1786 encodings.", note="As C01; bus timing is not modelled by the emulator. Trace length <= 8 (max observed reported in evidence).", ref="§5 C05"),
 "C06": dict(text="One Step with a pending request from an arbitrary state against an abstract interrupt controller (NMI; INT in modes 0/1/2 with len(Data) 0..3; refused requests compared with the model of the pinned instruction), handler-notification counts and flip-flop effects for all 1786 encodings, two 3-Step scenarios. One-step refinement from arbitrary states covers histories of any length by induction (paper step).", note="Mode 0 restricted to RST p / CALL nn; empty Data in modes 0/2 and IM outside 0..2 outside the claim; low 7 bits of R not compared on acceptance. Three genuine defects found here were fixed in /repo (known_findings.json).", ref="§5 C06"),
 "C07": dict(text="3-Step lemma from an arbitrary boundary state: accept; EI; RETI (NMI: accept; RETN) is the identity outside the stack hole, for NMI, IM1, IM2 (symbolic vector and I) and IM0 with each RST p and CALL nn. Whole-program transparency follows by induction with C10/C09 (paper step).", note="Handler fixed to the minimal transparent one, assumed present after the acceptance push. Known finding (not fixable under the unedited test suite): mode 0 pushes PC+len(Data); the check confirms the residual obligation (state identical except PC' = PC+len) and prints KNOWN-FINDING.", ref="§5 C07, §6"),
 "C08": dict(text="CPU.Run itself (closure, defer, go statement, map lookup, context/atomic stubs) is executed symbolically with the real Step: (a) on a scripted memory that answers every opcode fetch with an arbitrary choice among five instruction shapes with arbitrary operands — all programs of <= 3 (thorough 4) such instructions from an arbitrary start state, BreakPoints nil or an arbitrary set of <= 2 addresses; (b) on 12 concrete program skeletons on an address-consistent bus. In both, Run is compared with a twin CPU driven by Step with the stop rule written out (return value, number of Steps, final state, writes/trace).",
             note="Cancellation never happens here (C13). Longer programs by induction over loop iterations (Run keeps no state between iterations; paper step). Stubs: context.WithCancel/Background, sync/atomic, go statement recorded, errors.New.", ref="§5 C08"),
 "C13": dict(text="Run executed symbolically under a sequential environment model of cancellation: the cancellation instant is a parameter (before the call, or during instruction 0..k-1), the watcher goroutine is run at the moment its context is cancelled; obligations: Run returns the context's error, no instruction starts after the flag is published, the final state is that of a twin after a whole number of Steps, the watcher has finished on every return path. On the executed interleaving the engine keeps vector clocks (go edge, atomic store->load, cancel->Done, mutex) and every conflicting unordered pair with a non-atomic member is a 'norace' obligation, confirmed natively under go test -race.",
             note="Outside the claim: wall-clock latency of the Go scheduler ('bounded delay' = at most the instruction in flight completes after the flag is published), runtime goroutine accounting (natively observed only in replay), the context implementation (contract stub), weak-memory behaviours beyond the happens-before model. Programs <= 3 (4) scripted instructions.", ref="§5 C13"),
 "C09": dict(text="One-element lemma for the 16 block encodings from arbitrary states (all BC/B/HL/DE/A/memory/port data) plus complete runs of n = 1..4 (thorough 8) elements against a functional specification of the whole transfer/search, incl. overlap, wrap and self-overwrite.", note="Longer runs (up to 65536 elements) only via the lemma + induction on the counter (paper step). Undocumented block-I/O flags not compared.", ref="§5 C09"),
 "C10": dict(text="2-safety without oracle: two symbolic CPUs with equal States and equal bus answers but every other CPU field (taken from the type) independently arbitrary take equal Steps, for all 1786 encodings; footprint obligation: no explored path of Step writes a package-level variable.", note="Goroutine interleavings are not executed; race-freedom between CPUs is argued from the footprint (disjoint object graphs, no shared writes). Pointer/map-typed hidden fields are covered by the 2-Step rebuild harness only for the pairs listed in bounds.", ref="§5 C10"),
 "C11": dict(text="Relational obligations for all 255 DD/FD second bytes and 256 DDCB/FDCB fourth bytes: Step_FD(swap S) == swap(Step_DD(S)) on state, HALT, memory and the access sequence; plus independence of the DD form from IY by a second 2-run obligation.", note="Assumes no data access hits the prefix byte at PC (the one byte where the two programs differ by construction).", ref="§5 C11"),
 "C12": dict(text="Every implicit/explicit panic site on every explored path of Step is a solver obligation: all 1786 encodings (ideal bus, IO == nil), arbitrary requests (any Type/IM, len(Data) 0..4, PC anywhere incl. 0xFFFF), DumbMemory/DumbIO of symbolic length, cut-off instructions, sparse MapMemory; unsupported encodings must be consumed; structural: no back edge taken and acyclic call graph below Step.", note="Memory non-nil and MapMemory initialised are preconditions. Liveness of arbitrary programs is outside; Run's return on HALT is C08.", ref="§5 C12"),
 "C14": dict(text="R and I components of the all-encodings symbolic run (unsupported encodings included), all 256 R and all I; A/F for LD A,I / LD A,R / LD I,A / LD R,A.", note="As C01; DDCB/FDCB accept two or three fetches.", ref="§5 C14"),
 "C15": dict(text="One-step refinement of every method of DumbMemory, DumbIO and MapMemory against a byte-map model, executed symbolically: slice lengths are solver variables (0..65536 / 0..256), addresses, ports and values arbitrary; Put with 0..4 (thorough 8) data bytes; MapMemory methods on arbitrary initial maps with <= 3 (thorough 4) entries incl. Clone independence, Clear, Equal soundness/completeness/type cases. Every index/slice/nil-map panic site is an obligation.",
             note="reflect.DeepEqual by contract stub; maps with more entries only by the bounded claim (range loops unwound with an unwinding assertion); nil MapMemory outside; histories by induction from the one-step refinement (paper step).", ref="§5 C15"),
 "C17": dict(text="The tables are obtained by executing internal/zex's real package initialiser and Status.Bytes in the interpreter; each of the 2 x 67 records (mask, three state vectors, CRC, padded description, '$') is compared with the image record located through the image's own pointer table, the byte offset inside the record being a solver variable; the case count is taken from the 0-terminated table; the images must have the pinned canonical SHA-256 digests.",
             note="Ground data: the solver's role is a finite comparison and adds little over evaluation (said so in DESIGN.md); claimed because the technique applies unchanged (real initialiser and accessor code executed). Trusted: pinned digests, record layout of zexdoc.asm.", ref="§5 C17"),
 "C18": dict(text="The real BIOS bytes installed by NewMemory run on the real z80.Step, tinycpm.Memory and tinycpm.IO, symbolically: CALL 5 at an arbitrary call site with C=2 (8 Steps) and C=9 with strings of 0..3 (thorough 5) arbitrary non-'$' bytes at an arbitrary address (10+6n Steps), the per-character lemma at the loop head 0xFE14 (strings of any length by induction), JP 0 -> halted at 0xFF03, and the port device (port 0 = console in program order; other ports and reads only warn).",
             note="Program, stack and string lie in 0x0100-0xFDFF and do not overlap each other; unsupported function numbers outside the statement; sequences of calls by composition (paper step). Memory reads through symbolic stores are resolved by solver-backed alias queries under the path condition.", ref="§5 C18"),
 "C16": dict(text="Direct bit-vector queries over the complete domain: mask x F x all of GPR for GetFlag/SetFlag/ResetFlag (stated bit by bit), the eight constants, all 65536 values for SetU16/U16.", note="Complete domain; trusted: engine + z3.", ref="§5 C16"),
}

checks["C19"] = dict(text="run() of both commands is executed symbolically from an in-package harness with flag/os/bufio replaced by contract stubs: image of symbolic length L (1..65536) and content, symbolic offset with off+L-1 <= 0xFFFF, file-name lengths 1..12 and -nam lengths 1..12 case-split with symbolic characters; every header byte, the total length and the body (compared at a symbolic offset with the input slice) are obligations; only flushed output counts.",
             note="Stubs (each part of the claim): flag.*Var/Parse, os.ReadFile, os.Create, File.Close, bufio.NewWriter/WriteByte/Write/Flush. Error returns of the environment end the path. The operating system and real files are outside; the native replay uses real temp files.", ref="§5 C19")
na_reason = {
}

m = {
 "version": 1,
 "setup_cmd": "cd /verif/engine && GOFLAGS=-mod=mod GOPROXY=off GOSUMDB=off GOTOOLCHAIN=local go build -o /verif/bin/zsym .",
 "hooks": {"guard": "verif", "enable": "none needed: harnesses enter /repo packages through go/packages overlays (engine) and go test -overlay (native replay); nothing is written into /repo",
           "baseline_off_cmd": "cd /repo && go test -vet=off -count=1 ./...", "source_commits": [], "add_only": True},
 "engines": [{"name": "zsym", "path": "/verif/engine", "serves_properties": sorted(checks.keys()),
              "kind_free_text": "own Go SSA (golang.org/x/tools v0.29.0) symbolic executor -> SMT-LIB2 (bit-vectors + arrays) -> long-lived z3 -in per worker; counterexamples replayed natively via go test -overlay"}],
 "checks": [],
 "notes": "Genuine defects repaired in /repo by 'fix:' commits and the one recorded known finding are listed in /verif/known_findings.json and DESIGN.md §6. INCONCLUSIVE lines (unknown/timeout/unsupported construct) exit 0 and are counted under coverage.undecided in the evidence.",
 "not_applicable": [],
}
for p in props:
    if p in checks:
        c = checks[p]
        m["checks"].append({
            "property_id": p,
            "quick_cmd": "./check.sh %s quick" % p,
            "thorough_cmd": "./check.sh %s thorough" % p,
            "evidence_file": "/verif/evidence/%s.json" % p,
            "replay_cmd_template": "./check.sh replay {path}",
            "engine": "zsym",
            "level_claimed": {"category": "model_checking", "text": c["text"], "design_ref": "DESIGN.md " + c["ref"]},
            "level_note": c["note"],
            "technique": TECH,
        })
    else:
        m["not_applicable"].append({"property_id": p, "reason": na_reason.get(p, "check not built yet: the engine features this property needs (DESIGN.md §2.3) are under construction; it will be decided with the same solver-based technique")})
json.dump(m, open(os.path.join(V, 'MANIFEST.json'), 'w'), indent=1)
print("claimed:", sorted(checks.keys()))
print("not_applicable:", [x["property_id"] for x in m["not_applicable"]])
