#!/usr/bin/env python3
"""Write the self-contained sub-agent prompts for a round of seeded changes.
usage: mkseedprompts.py <round-out-dir> <prop>[,<prop>...]
Each prompt carries only the property text and the one-line descriptions of changes already
tried for it (so that a new, different mechanism is asked for) - nothing about the checks."""
import json, sys, os, glob, subprocess
out, props = sys.argv[1], sys.argv[2].split(',')
hint = sys.argv[3] if len(sys.argv) > 3 else None
P = {}
for l in open('/verif/properties.jsonl'):
    d = json.loads(l); P[d['id']] = d
tried = {}
for m in glob.glob('/verif/seeded/*/meta.json'):
    d = json.load(open(m))
    tried.setdefault(d['property'], []).append(d.get('summary') or d.get('needs_to_manifest') or os.path.basename(os.path.dirname(m)))
T = open('/verif/tools/seedprompt.txt').read()
for p in props:
    d = P[p]
    os.makedirs(f'{out}/{p}', exist_ok=True)
    wt = f'/tmp/seed/{p}'
    if not os.path.isdir(wt):
        subprocess.check_call(['git', '-C', '/repo', 'worktree', 'add', '--detach', wt, 'HEAD'], stdout=subprocess.DEVNULL)
    subprocess.call(['git', '-C', wt, 'checkout', '-q', '--detach', subprocess.check_output(['git','-C','/repo','rev-parse','HEAD']).decode().strip()])
    subprocess.call(['git', '-C', wt, 'checkout', '--', '.']); subprocess.call(['git', '-C', wt, 'clean', '-fdq'])
    q = d.get('quantifier') or ''
    if isinstance(q, dict): q = q.get('text', '')
    names = sorted(os.path.basename(os.path.dirname(m)).split('-',1)[1].replace('-',' ') for m in glob.glob(f'/verif/seeded/{p}-*/meta.json'))
    txt = T.replace('@ID@', p).replace('@WT@', wt).replace('@OUT@', f'{out}/{p}') \
           .replace('@TITLE@', d['title']).replace('@TEXT@', d.get('statement') or d.get('text')) \
           .replace('@QUANT@', str(q)).replace('@TRIED@', '; '.join(names))
    if hint:
        i = txt.index('Prefer a defect made of TWO')
        j = txt.index('Keep it small')
        txt = txt[:i] + hint + '\n\n' + txt[j:]
    open(f'{out}/{p}/prompt.txt', 'w').write(txt)
    print(p, 'prompt written,', len(names), 'earlier ideas listed')
