#!/usr/bin/env python3
"""Evaluate a seeded change: tools/seedeval.py <seed-name> <property> <srcdir> [--demo-dir DIR] [--props C01,C05]
 1. scratch worktree: patch applies, builds, existing suite passes, demo fails with / passes without
 2. /repo: apply patch, run the property's quick check (and optional others), undo
 3. store under /verif/seeded/<seed-name>/"""
import sys, os, subprocess, json, shutil, re, time
env = dict(os.environ, GOFLAGS='-mod=mod', GOPROXY='off', GOSUMDB='off', GOTOOLCHAIN='local')
def sh(cmd, cwd=None, timeout=1500):
    p = subprocess.run(cmd, shell=True, cwd=cwd, env=env, capture_output=True, text=True, timeout=timeout)
    return p.returncode, (p.stdout + p.stderr)
name, prop, src = sys.argv[1:4]
demo_dir = '.'
props = [prop]
args = sys.argv[4:]
while args:
    a = args.pop(0)
    if a == '--demo-dir': demo_dir = args.pop(0)
    elif a == '--props': props = args.pop(0).split(',')
patch = os.path.join(src, 'patch.diff')
demo = os.path.join(src, 'demo_test.go')
meta = {'seed': name, 'property': prop, 'checks_run': {}, 'at': time.strftime('%Y-%m-%dT%H:%M:%S')}
wt = '/tmp/seedeval_' + name
sh('git -C /repo worktree remove --force %s' % wt)
rc, out = sh('git -C /repo worktree add -q --detach %s HEAD' % wt); assert rc == 0, out
try:
    rc, out = sh('git apply %s' % patch, cwd=wt); meta['patch_applies'] = rc == 0
    assert rc == 0, out
    rc, out = sh('go build ./... && go vet ./...', cwd=wt); meta['builds'] = rc == 0
    rc, out = sh('go test -vet=off -count=1 ./...', cwd=wt); meta['suite_passes_with_change'] = rc == 0
    meta['suite_tail'] = out.strip().splitlines()[-3:]
    dst = os.path.join(wt, demo_dir, 'zz_seed_demo_test.go')
    shutil.copy(demo, dst)
    pkg = './' + demo_dir
    rc, out = sh('go test -vet=off -count=1 -run . %s' % pkg, cwd=wt, timeout=1800)
    # only the demo's own tests matter: look for its failure
    meta['demo_fails_with_change'] = rc != 0
    meta['demo_with_tail'] = out.strip().splitlines()[-4:]
    os.remove(dst)
    sh('git checkout -- .', cwd=wt)
    shutil.copy(demo, dst)
    rc, out = sh('go test -vet=off -count=1 -run . %s' % pkg, cwd=wt, timeout=1800)
    meta['demo_passes_without_change'] = rc == 0
    meta['demo_without_tail'] = out.strip().splitlines()[-3:]
finally:
    sh('git -C /repo worktree remove --force %s' % wt)
# checks against /repo
rc, out = sh('git -C /repo status --porcelain'); assert out.strip() == '', 'repo dirty: ' + out
rc, out = sh('git -C /repo apply %s' % patch); assert rc == 0, out
# evidence files describe the unchanged tree: keep them out of the way of the mutated runs
ev_backup = '/tmp/seedeval_evidence_' + name
shutil.rmtree(ev_backup, ignore_errors=True)
shutil.copytree('/verif/evidence', ev_backup)
try:
    for p in props:
        t0 = time.time()
        rc, out = sh('./check.sh %s quick' % p, cwd='/verif', timeout=1500)
        lines = [l[:300] for l in out.splitlines() if l.startswith(('VIOLATION', 'INCONCLUSIVE', 'OK', 'KNOWN'))]
        meta['checks_run'][p] = {'exit': rc, 'wall_s': round(time.time() - t0, 1), 'violations': sum(l.startswith('VIOLATION') for l in lines),
                                 'first_lines': lines[:4]}
finally:
    sh('git -C /repo checkout -- .')
    shutil.rmtree('/verif/evidence', ignore_errors=True)
    shutil.copytree(ev_backup, '/verif/evidence')
    shutil.rmtree(ev_backup, ignore_errors=True)
    rc, out = sh('git -C /repo status --porcelain'); assert out.strip() == '', out
meta['caught_by'] = [p for p, r in meta['checks_run'].items() if r['exit'] == 1 and r['violations'] > 0]
out_dir = '/verif/seeded/' + name
os.makedirs(out_dir, exist_ok=True)
if os.path.abspath(src) != os.path.abspath(out_dir):
    shutil.copy(patch, os.path.join(out_dir, 'patch.diff'))
    shutil.copy(demo, os.path.join(out_dir, 'demo_test.go'))
    if os.path.exists(os.path.join(src, 'notes.md')):
        shutil.copy(os.path.join(src, 'notes.md'), os.path.join(out_dir, 'notes.md'))
if os.path.exists(os.path.join(out_dir, 'meta.json')):
    # re-evaluation of a stored seed: keep its descriptive fields and the checks
    # recorded earlier as catching it (this run may have asked for fewer)
    old = json.load(open(os.path.join(out_dir, 'meta.json')))
    for k in ('needs_to_manifest', 'history', 'what_was_run', 'breaks_property', 'round'):
        if k in old:
            meta[k] = old[k]
    for p in old.get('caught_by', []):
        if p not in meta['checks_run'] and p not in meta['caught_by']:
            meta['caught_by'].append(p)
            meta['checks_run'][p] = old.get('checks_run', {}).get(p, {'exit': 1, 'violations': 1, 'wall_s': 0, 'first_lines': ['(from an earlier evaluation)']})
meta['demo_package_dir'] = demo_dir
json.dump(meta, open(os.path.join(out_dir, 'meta.json'), 'w'), indent=1)
ok = meta['builds'] and meta['suite_passes_with_change'] and meta['demo_fails_with_change'] and meta['demo_passes_without_change']
print(name, 'VALID' if ok else 'INVALID', 'caught_by=', meta['caught_by'], {p: (r['exit'], r['violations'], r['wall_s']) for p, r in meta['checks_run'].items()})
if not ok:
    print(json.dumps({k: meta[k] for k in meta if k.endswith('tail') or k.startswith(('demo_', 'suite_', 'builds'))}, indent=1))
