#!/bin/sh
# Property-preserving changes (benign/<name>.diff): none of them may make a check
# print VIOLATION or exit non-zero.  usage: tools/benign.sh [repo-dir] [props...]
cd "$(dirname "$0")/.." || exit 2
REPO="${1:-/repo}"; [ $# -gt 0 ] && shift
export ZSYM_REPO="$REPO"
PROPS="${*:-C01 C02 C03 C04 C05 C06 C07 C08 C09 C10 C11 C12 C13 C14 C15 C16 C17 C18 C19}"
fail=0
for d in benign/*.diff; do
  n=$(basename "$d" .diff)
  git -C "$REPO" apply "$PWD/$d" || { echo "$n: does not apply"; fail=1; continue; }
  (cd "$REPO" && go build ./... && go test -count=1 ./... >/dev/null 2>&1) || echo "$n: the repo's own suite fails (not benign?)"
  for p in $PROPS; do
    out=$(./check.sh "$p" quick 2>&1); rc=$?
    v=$(echo "$out" | grep -c '^VIOLATION'); i=$(echo "$out" | grep -c '^INCONCLUSIVE')
    if [ "$rc" != 0 ] || [ "$v" -gt 0 ]; then echo "$n $p: FALSE ALARM exit=$rc violations=$v"; fail=1; else echo "$n $p: quiet (inconclusive=$i) $(echo "$out" | tail -1)"; fi
  done
  git -C "$REPO" checkout -- . >/dev/null 2>&1
done
exit $fail
