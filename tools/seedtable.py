#!/usr/bin/env python3
"""Regenerate the seeded-change table of DESIGN.md section 10 from seeded/*/meta.json."""
import json, glob, re, os
rows = []
miss = 0
for m in sorted(glob.glob('/verif/seeded/*/meta.json')):
    d = json.load(open(m))
    name = os.path.basename(os.path.dirname(m))
    h = d.get('history', 'first run')
    if h.upper().startswith('MISSED') or 'MISSED' in h:
        miss += 1
    rows.append(f"| `{name}` | {d.get('needs_to_manifest','')} | {', '.join(d.get('caught_by', [])) or '— (not claimed)'} | {h} |")
tbl = "| seed | needs, in order to manifest | caught by (quick) | history |\n|---|---|---|---|\n" + "\n".join(rows) + "\n"
p = '/verif/DESIGN.md'
s = open(p).read()
i = s.index('| seed | needs, in order to manifest')
j = s.index('\n\n', i)
s = s[:i] + tbl.rstrip('\n') + s[j:]
open(p, 'w').write(s)
print(len(rows), 'seeds;', miss, 'with a miss in their history')
