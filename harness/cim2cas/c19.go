package main

// C19 — cim2cas: cassette sync header, ten 0xD0 type bytes, six-character
// name (the -nam value truncated or space padded), sync header
// again, start/end/exec words, unmodified image.

var vSync = [8]uint8{0x1f, 0xa6, 0xde, 0xba, 0xcc, 0x13, 0x7d, 0x74}

// k = length of the file name (>= 1), m = length of the -nam value (0 = not given)
// inplace = 1: the image is converted in place (-cim names the output file)
func VC19Cas(k, m, inplace int) {
	vCmdBegin("cas")
	name := vStr("cim", k)
	for i := 0; i < k; i++ {
		c := name[i]
		vAssume(vOr(vAnd(c >= 'a', c <= 'z'), vAnd(c >= '0', c <= '9')))
	}
	tape := vStr("nam", m)
	n := vSymLen("len")
	off := vU16("off")
	vAssume(vAnd(n >= 1, n <= 65536))
	vAssume(int(off)+n-1 <= 0xffff)
	img := vBytesN("img", n)
	if inplace == 1 {
		vCmdInPlace("cim", img)
	} else {
		vCmdFile(name, img)
		vCmdFlag("cim", name)
	}
	if m > 0 {
		vCmdFlag("nam", tape)
	}
	vCmdFlagUint("off", uint(off))
	err := run()
	vAssert("no-error", err == nil)
	vAssert("length", vOutLen() == 38+n)
	for i := 0; i < 8; i++ {
		vAssert("sync1", vOutByte(i) == vSync[i])
		vAssert("sync2", vOutByte(24+i) == vSync[i])
	}
	for i := 0; i < 10; i++ {
		vAssert("type", vOutByte(8+i) == 0xd0)
	}
	// the name given with -nam: first six characters, space padded.  Which name is
	// used when -nam is absent is not part of the property (today: the input file
	// name); the layout around it is checked all the same.
	if m > 0 {
		for i := 0; i < 6; i++ {
			var want uint8 = ' '
			if i < m {
				want = tape[i]
			}
			vAssert("name", vOutByte(18+i) == want)
		}
	}
	end := off + uint16(n) - 1
	vAssert("start", vAnd(vOutByte(32) == uint8(off), vOutByte(33) == uint8(off>>8)))
	vAssert("end", vAnd(vOutByte(34) == uint8(end), vOutByte(35) == uint8(end>>8)))
	vAssert("exec", vAnd(vOutByte(36) == uint8(off), vOutByte(37) == uint8(off>>8)))
	j := vSymLen("j")
	vAssume(vAnd(j >= 0, j < n))
	vAssert("body", vOutEqAt(38, img, j))
	vCmdEnd()
}
