package PKGNAME

// Harness library.  The symbolic engine intercepts every function and method
// in this file by name and never executes these bodies; the bodies are the
// native twin used for replaying counterexamples and for translator
// validation against the real build.

import (
	"context"
	"encoding/json"
	"errors"
	"flag"
	"fmt"
	"os"
	"reflect"
	"runtime"
	"sort"
	"strings"
	"time"
	"unsafe"
)

type vArr struct {
	Def uint64            `json:"def"`
	M   map[string]uint64 `json:"m"`
}

type vReplayT struct {
	Harness string            `json:"harness"`
	Params  []int             `json:"params"`
	Vals    map[string]uint64 `json:"vals"`
	Arrays  map[string]vArr   `json:"arrays"`
}

var vReplay vReplayT
var vFailed []string
var vUnmet int
var vNotes []string
var vPost = map[string]uint64{} // observations for translator validation

func vLoadReplay(path string) error {
	b, err := os.ReadFile(path)
	if err != nil {
		return err
	}
	vReplay = vReplayT{}
	vFailed, vUnmet, vNotes = nil, 0, nil
	vWarns = 0
	vPost = map[string]uint64{}
	// let goroutines released by the previous replay exit before taking the baseline
	last := -1
	for i := 0; i < 40; i++ {
		n := runtime.NumGoroutine()
		if n == last {
			break
		}
		last = n
		time.Sleep(5 * time.Millisecond)
	}
	vBaseGoroutines = runtime.NumGoroutine()
	return json.Unmarshal(b, &vReplay)
}

func vVal(name string) uint64 { return vReplay.Vals[name] }

func vU8(name string) uint8   { return uint8(vVal(name)) }
func vU16(name string) uint16 { return uint16(vVal(name)) }
func vU32(name string) uint32 { return uint32(vVal(name)) }
func vU64(name string) uint64 { return vVal(name) }
func vInt(name string) int    { return int(vVal(name)) }
func vBool(name string) bool  { return vVal(name) != 0 }
func vSymLen(name string) int { return int(vVal(name)) }

func vU8N(prefix string, k int) uint8   { return uint8(vVal(fmt.Sprintf("%s%d", prefix, k))) }
func vU16N(prefix string, k int) uint16 { return uint16(vVal(fmt.Sprintf("%s%d", prefix, k))) }
func vBoolN(prefix string, k int) bool  { return vVal(fmt.Sprintf("%s%d", prefix, k)) != 0 }

func vArrGet(name string, i uint64) uint8 { return uint8(vArrGet64(name, i)) }

func vArrGet64(name string, i uint64) uint64 {
	a, ok := vReplay.Arrays[name]
	if !ok {
		return 0
	}
	if v, ok := a.M[fmt.Sprint(i)]; ok {
		return uint64(v)
	}
	return uint64(a.Def)
}

func vIntKind(k reflect.Kind) (signed, ok bool) {
	switch k {
	case reflect.Int, reflect.Int8, reflect.Int16, reflect.Int32, reflect.Int64:
		return true, true
	case reflect.Uint, reflect.Uint8, reflect.Uint16, reflect.Uint32, reflect.Uint64, reflect.Uintptr:
		return false, true
	}
	return false, false
}

func vBytes(name string, n int) []uint8 {
	b := make([]uint8, n)
	for i := range b {
		b[i] = vArrGet(name, uint64(i))
	}
	return b
}

func vBytesN(name string, n int) []uint8 { return vBytes(name, n) }

// ---- environment of the command-line tools (C19) -------------------------------
// natively: a scratch directory, real files, os.Args and a fresh flag set

var vCmdDir, vCmdOld, vCmdOutName string
var vCmdArgs []string

func vCmdBegin(outFlag string) {
	vCmdOld, _ = os.Getwd()
	vCmdDir, _ = os.MkdirTemp("", "vcmd")
	os.Chdir(vCmdDir)
	vCmdOutName = "out.dat"
	// the output path may already hold an older, longer file
	if n := vVal("cmd.oldlen"); n > 0 && n <= 1<<20 {
		old := make([]byte, n)
		for i := range old {
			old[i] = 0xee
		}
		os.WriteFile(vCmdOutName, old, 0o644)
	}
	vCmdArgs = []string{"cmd", "-" + outFlag + "=" + vCmdOutName}
	flag.CommandLine = flag.NewFlagSet("cmd", flag.ContinueOnError)
}

func vCmdFile(name string, content []byte) {
	if err := os.WriteFile(name, content, 0o644); err != nil {
		panic(err)
	}
}

// vCmdInPlace: the input image lives in the very file the output goes to
// (conversion in place): flag inFlag names it.
func vCmdInPlace(inFlag string, content []byte) {
	if err := os.WriteFile(vCmdOutName, content, 0o644); err != nil {
		panic(err)
	}
	vCmdFlag(inFlag, vCmdOutName)
}

func vCmdFlag(name, value string) {
	vCmdArgs = append(vCmdArgs, "-"+name+"="+value)
	os.Args = vCmdArgs
}

func vCmdFlagUint(name string, v uint) {
	vCmdArgs = append(vCmdArgs, fmt.Sprintf("-%s=%d", name, v))
	os.Args = vCmdArgs
}

func vCmdEnd() {
	os.Chdir(vCmdOld)
	os.RemoveAll(vCmdDir)
}

func vOutData() []byte {
	b, err := os.ReadFile(vCmdDir + "/" + vCmdOutName)
	if err != nil {
		return nil
	}
	return b
}

func vOutLen() int      { return len(vOutData()) }
func vOutFlushed() bool { _, err := os.Stat(vCmdDir + "/" + vCmdOutName); return err == nil }
func vOutByte(i int) uint8 {
	d := vOutData()
	if i >= len(d) {
		return 0
	}
	return d[i]
}
func vOutEqAt(i int, b []byte, j int) bool {
	d := vOutData()
	return i+j < len(d) && j < len(b) && d[i+j] == b[j]
}

// vFile reads a file of the repository's working tree.
func vFile(rel string) []uint8 {
	root := os.Getenv("VERIF_REPO")
	if root == "" {
		root = "/repo"
	}
	b, err := os.ReadFile(root + "/" + rel)
	if err != nil {
		panic(err)
	}
	return b
}

func vStr(name string, n int) string { return string(vBytes(name, n)) }

func vHavoc(p interface{}, name string) {
	vHavocRec(reflect.ValueOf(p).Elem(), name)
}

func vHavocRec(v reflect.Value, name string) {
	if !v.CanSet() {
		v = reflect.NewAt(v.Type(), unsafe.Pointer(v.UnsafeAddr())).Elem()
	}
	switch v.Kind() {
	case reflect.Bool:
		v.SetBool(vVal(name) != 0)
	case reflect.Int, reflect.Int8, reflect.Int16, reflect.Int32, reflect.Int64:
		v.SetInt(int64(vVal(name)))
	case reflect.Uint, reflect.Uint8, reflect.Uint16, reflect.Uint32, reflect.Uint64, reflect.Uintptr:
		v.SetUint(vVal(name))
	case reflect.Struct:
		for i := 0; i < v.NumField(); i++ {
			vHavocRec(v.Field(i), name+"."+v.Type().Field(i).Name)
		}
	case reflect.Array:
		if signed, ok := vIntKind(v.Type().Elem().Kind()); ok {
			// integer arrays of any width are one SMT array in the engine
			for i := 0; i < v.Len(); i++ {
				if signed {
					v.Index(i).SetInt(int64(vArrGet64(name, uint64(i))))
				} else {
					v.Index(i).SetUint(vArrGet64(name, uint64(i)))
				}
			}
			return
		}
		for i := 0; i < v.Len(); i++ {
			vHavocRec(v.Index(i), fmt.Sprintf("%s[%d]", name, i))
		}
	case reflect.Slice:
		// integer slices: arbitrary length 0..4 (name.len) and contents; other
		// slices stay nil
		if signed, ok := vIntKind(v.Type().Elem().Kind()); ok {
			n := int(vVal(name + ".len"))
			sl := reflect.MakeSlice(v.Type(), n, n)
			for i := 0; i < n; i++ {
				if signed {
					sl.Index(i).SetInt(int64(vArrGet64(name, uint64(i))))
				} else {
					sl.Index(i).SetUint(vArrGet64(name, uint64(i)))
				}
			}
			v.Set(sl)
		}
	case reflect.Ptr, reflect.Interface, reflect.Map, reflect.Func, reflect.Chan, reflect.String, reflect.UnsafePointer:
		// left at the zero value (not modelled as arbitrary)
	default:
		panic("vHavoc: unsupported kind " + v.Kind().String())
	}
}

// vHavocFields havocs every field of the struct *p except the named ones.
func vHavocFields(p interface{}, name string, skip string) {
	v := reflect.ValueOf(p).Elem()
	sk := map[string]bool{}
	for _, x := range strings.Split(skip, ",") {
		sk[x] = true
	}
	for i := 0; i < v.NumField(); i++ {
		f := v.Type().Field(i)
		if sk[f.Name] {
			continue
		}
		switch f.Type.Kind() {
		case reflect.Bool, reflect.Int, reflect.Int8, reflect.Int16, reflect.Int32, reflect.Int64,
			reflect.Uint, reflect.Uint8, reflect.Uint16, reflect.Uint32, reflect.Uint64, reflect.Uintptr,
			reflect.Struct, reflect.Array, reflect.Slice:
			vHavocRec(v.Field(i), name+"."+f.Name)
		case reflect.Map:
			if f.Type.Key().Kind() != reflect.Uint16 {
				continue
			}
			fv := v.Field(i)
			if !fv.CanSet() {
				fv = reflect.NewAt(fv.Type(), unsafe.Pointer(fv.UnsafeAddr())).Elem()
			}
			m := reflect.MakeMap(f.Type)
			for k := 0; k < 2; k++ {
				if vVal(fmt.Sprintf("%s.%s.p%d", name, f.Name, k)) == 0 {
					continue
				}
				key := reflect.ValueOf(uint16(vVal(fmt.Sprintf("%s.%s.k%d", name, f.Name, k))))
				val := reflect.New(f.Type.Elem()).Elem()
				if val.Kind() == reflect.Uint8 {
					val.SetUint(vVal(fmt.Sprintf("%s.%s.v%d", name, f.Name, k)))
				}
				m.SetMapIndex(key, val)
			}
			fv.Set(m)
		}
	}
}

// vMapU16U8: a non-nil map with at most n entries (n candidate keys with
// presence bits name.p<i>, keys name.k<i>, values name.v<i>).
func vMapU16U8(name string, n int) map[uint16]uint8 {
	m := map[uint16]uint8{}
	for i := 0; i < n; i++ {
		k := uint16(vVal(fmt.Sprintf("%s.k%d", name, i)))
		if vVal(fmt.Sprintf("%s.p%d", name, i)) != 0 {
			m[k] = uint8(vVal(fmt.Sprintf("%s.v%d", name, i)))
		} else if _, ok := m[k]; ok {
			// an earlier candidate with the same key keeps its presence; the
			// value of the latest candidate wins (matches the engine's encoding)
			m[k] = uint8(vVal(fmt.Sprintf("%s.v%d", name, i)))
		}
	}
	return m
}

func vMapU16Set(name string, n int) map[uint16]struct{} {
	m := map[uint16]struct{}{}
	for i := 0; i < n; i++ {
		if vVal(fmt.Sprintf("%s.p%d", name, i)) != 0 {
			m[uint16(vVal(fmt.Sprintf("%s.k%d", name, i)))] = struct{}{}
		}
	}
	return m
}

type vUnmetAssumption struct{}

func vAssume(c bool) {
	if !c {
		vUnmet++
		panic(vUnmetAssumption{})
	}
}

func vAssert(name string, c bool) {
	if !c {
		vFailed = append(vFailed, name)
	}
}

func vIteU8(c bool, a, b uint8) uint8 {
	if c {
		return a
	}
	return b
}
func vIteU16(c bool, a, b uint16) uint16 {
	if c {
		return a
	}
	return b
}
func vIteU32(c bool, a, b uint32) uint32 {
	if c {
		return a
	}
	return b
}
func vIteInt(c bool, a, b int) int {
	if c {
		return a
	}
	return b
}
func vIteBool(c bool, a, b bool) bool {
	if c {
		return a
	}
	return b
}
// vCase is an ordinary branch: the engine does not intercept it, so a symbolic
// condition forks the path here (used where a bus access or a control decision
// is conditional and cannot be expressed with vIte).
func vCase(c bool) bool {
	if c {
		return true
	}
	return false
}

func vAnd(a, b bool) bool     { return a && b }
func vOr(a, b bool) bool      { return a || b }
func vImplies(a, b bool) bool { return !a || b }

// vStop ends the path: the harness's stated bound is reached.
type vStopped struct{ why string }

func vStop(why string) { panic(vStopped{why}) }

// vCancelReleased: every context derived by the code under test so far has
// been cancelled again.  Natively this is observed through goroutine
// accounting: the watcher goroutines blocked on such a context are gone.
func vCancelReleased() bool {
	for i := 0; i < 100; i++ {
		if runtime.NumGoroutine() <= vBaseGoroutines {
			return true
		}
		time.Sleep(5 * time.Millisecond)
	}
	return false
}

// vSettle gives a freshly woken goroutine time to run (native only; the
// engine's environment model runs it at the moment of cancellation).
func vSettle() { time.Sleep(20 * time.Millisecond) }

// vSchedLazy selects the engine's lazy goroutine schedule (woken goroutines run
// only when the main goroutine blocks or the harness settles).  Natively the
// schedule is the runtime's; schedule-dependent counterexamples are therefore
// replayed vStress() times and count as reproduced if any iteration fails.
func vSchedLazy(on bool) {}

func vStress() int { return 60 }

// native stand-ins for the event-order intrinsics: event order is a property
// of the SSA event structure and has no native observation
func vEventBefore(a, b string) bool { return true }
func vGoCount() int                 { return 1 }

var vBaseGoroutines int

// vIsErrOf: err is the (non-nil) error of ctx.
func vIsErrOf(err error, ctx context.Context) bool {
	return err != nil && ctx.Err() != nil && errors.Is(err, ctx.Err())
}

// vWarnW is the writer harnesses give to warning loggers; vWarnCount counts
// the warnings (engine: log calls; native: writes to vWarnW).
type vWarnW struct{}

var vWarns int

func (vWarnW) Write(p []byte) (int, error) { vWarns++; return len(p), nil }
func vWarnCount() int                      { return vWarns }

func vNote(s string) { vNotes = append(vNotes, s) }
func vEventCount(s string) int {
	n := 0
	for _, x := range vNotes {
		if x == s {
			n++
		}
	}
	return n
}

// vObserve records a named post-state value (translator validation).
func vObserve(name string, v uint64) { vPost[name] = v }

// ---------------------------------------------------------------------------
// the bus: ideal RAM + passive port space + access trace

type vEv struct {
	kind int // 0 memR 1 memW 2 portIn 3 portOut
	addr uint16
	val  uint8
}

type vBus struct {
	name    string
	inName  string
	inCount int
	mem     [65536]uint8
	mem0    [65536]uint8
	trace   []vEv
	hook    func(kind int, addr uint16, val uint8)
}

func vNewBus(name string) *vBus {
	b := &vBus{name: name, inName: name}
	if a, ok := vReplay.Arrays[name+".mem"]; ok {
		if a.Def != 0 {
			for i := range b.mem {
				b.mem[i] = uint8(a.Def)
			}
		}
		for k, v := range a.M {
			var i int
			fmt.Sscan(k, &i)
			b.mem[i&0xffff] = uint8(v)
		}
	}
	b.mem0 = b.mem
	return b
}

func (b *vBus) ev(kind int, addr uint16, val uint8) {
	b.trace = append(b.trace, vEv{kind, addr, val})
	if b.hook != nil {
		h := b.hook
		b.hook = nil
		h(kind, addr, val)
		b.hook = h
	}
}

func (b *vBus) Get(addr uint16) uint8 {
	v := b.mem[addr]
	b.ev(0, addr, v)
	return v
}

func (b *vBus) Set(addr uint16, v uint8) {
	b.mem[addr] = v
	b.ev(1, addr, v)
}

func (b *vBus) In(addr uint8) uint8 {
	v := uint8(vVal(fmt.Sprintf("%s.in%d", b.inName, b.inCount)))
	b.inCount++
	b.ev(2, uint16(addr), v)
	return v
}

func (b *vBus) Out(addr uint8, v uint8) { b.ev(3, uint16(addr), v) }

func (b *vBus) Peek(addr uint16) uint8    { return b.mem[addr] }
func (b *vBus) Peek0(addr uint16) uint8   { return b.mem0[addr] }
func (b *vBus) Poke(addr uint16, v uint8) { b.mem[addr] = v }

func (b *vBus) Fork(name string) *vBus {
	n := &vBus{name: name, inName: b.inName}
	n.mem = b.mem
	n.mem0 = b.mem
	return n
}

func (b *vBus) Len() int          { return len(b.trace) }
func (b *vBus) Kind(i int) int    { return b.trace[i].kind }
func (b *vBus) Addr(i int) uint16 { return b.trace[i].addr }
func (b *vBus) Val(i int) uint8   { return b.trace[i].val }
func (b *vBus) ResetTrace()       { b.trace = nil }
func (b *vBus) CountKind(k int) int {
	n := 0
	for _, e := range b.trace {
		if e.kind == k {
			n++
		}
	}
	return n
}
func (b *vBus) OnAccess(f func(kind int, addr uint16, val uint8)) { b.hook = f }

func vTraceMultisetEq(a, b *vBus) bool {
	if len(a.trace) != len(b.trace) {
		return false
	}
	x := append([]vEv(nil), a.trace...)
	y := append([]vEv(nil), b.trace...)
	less := func(s []vEv) func(i, j int) bool {
		return func(i, j int) bool {
			if s[i].kind != s[j].kind {
				return s[i].kind < s[j].kind
			}
			if s[i].addr != s[j].addr {
				return s[i].addr < s[j].addr
			}
			return s[i].val < s[j].val
		}
	}
	sort.Slice(x, less(x))
	sort.Slice(y, less(y))
	for i := range x {
		if x[i] != y[i] {
			return false
		}
	}
	return true
}

func vTraceSeqEqFrom(a, b *vBus, from int) bool {
	if len(a.trace) != len(b.trace) {
		return false
	}
	for i := from; i < len(a.trace); i++ {
		if a.trace[i] != b.trace[i] {
			return false
		}
	}
	return true
}

func vTraceSeqEq(a, b *vBus) bool { return vTraceSeqEqFrom(a, b, 0) }
