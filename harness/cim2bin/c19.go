package main

// C19 — cim2bin wraps any image in a correct MSX BLOAD container, body unaltered.
// run() is executed with flag/os/bufio replaced by contract stubs (engine) or a
// scratch directory with real files (native replay).

// k = length of the input file name (file names use safe characters so that
// the native replay can create the file)
// inplace = 1: the image is converted in place (-cim names the output file)
func VC19Bin(k, inplace int) {
	vCmdBegin("bin")
	name := vStr("cim", k)
	for i := 0; i < k; i++ {
		c := name[i]
		vAssume(vOr(vAnd(c >= 'a', c <= 'z'), vAnd(c >= '0', c <= '9')))
	}
	n := vSymLen("len")
	off := vU16("off")
	vAssume(vAnd(n >= 1, n <= 65536))
	vAssume(int(off)+n-1 <= 0xffff)
	img := vBytesN("img", n)
	if inplace == 1 {
		vCmdInPlace("cim", img)
	} else {
		vCmdFile(name, img)
		vCmdFlag("cim", name)
	}
	vCmdFlagUint("off", uint(off))
	err := run()
	vAssert("no-error", err == nil)
	end := off + uint16(n) - 1
	vAssert("length", vOutLen() == 7+n)
	vAssert("id", vOutByte(0) == 0xfe)
	vAssert("start", vAnd(vOutByte(1) == uint8(off), vOutByte(2) == uint8(off>>8)))
	vAssert("end", vAnd(vOutByte(3) == uint8(end), vOutByte(4) == uint8(end>>8)))
	vAssert("exec", vAnd(vOutByte(5) == uint8(off), vOutByte(6) == uint8(off>>8)))
	j := vSymLen("j")
	vAssume(vAnd(j >= 0, j < n))
	vAssert("body", vOutEqAt(7, img, j))
	vCmdEnd()
}
