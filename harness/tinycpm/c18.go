package tinycpm

import (
	"log"

	"github.com/koron-go/z80"
)

// C18 — the mini CP/M machine.  The real BIOS bytes installed by NewMemory are
// executed by the real z80.Step on the real tinycpm.Memory / tinycpm.IO; the
// program area, registers and the string are symbolic.

type vConsole struct {
	n    int
	buf  [64]uint8
	last uint8
}

func (c *vConsole) Write(p []byte) (int, error) {
	for _, b := range p {
		if c.n < len(c.buf) {
			c.buf[c.n] = b
		}
		c.n++
		c.last = b
	}
	return len(p), nil
}

// memory: whatever NewMemory installs in the BIOS pages (page 0 with its
// vectors, 0xFE00-0xFFFF with the BDOS stub and the stop code), arbitrary bytes
// in between (0x0100-0xFDFF: program, data, stack)
func vMachine() (*Memory, *IO, *vConsole) {
	real := NewMemory()
	m := new(Memory)
	vHavoc(m, "mem") // every byte arbitrary (whatever the type keeps inside)
	for a := 0; a < 0x100; a++ {
		m.Set(uint16(a), real.Get(uint16(a)))
	}
	for a := 0xfe00; a <= 0xffff; a++ {
		m.Set(uint16(a), real.Get(uint16(a)))
	}
	cons := &vConsole{}
	io := NewIO()
	io.SetStdout(cons)
	io.SetWarnLogger(log.New(vWarnW{}, "", 0))
	return m, io, cons
}

func vOutsideBIOS(a uint16) bool { return vAnd(a >= 0x0100, a < 0xfe00) }

// bytes below SP that the call may change: the return slot of the caller's own
// CALL 5 and nothing else ("the caller's code intact" is quantified over every
// caller, also one whose code or data lies right below its stack pointer)
const vStackRoom = 2

// a is not one of the vStackRoom bytes below sp
func vClearOfStack(a, sp uint16) bool { return sp-1-a >= vStackRoom }

// caller: CALL 5 at pc; the stack area lies outside the BIOS pages and clear of the call site
func vCaller(m *Memory, s *z80.States) {
	pc := s.PC
	vAssume(vAnd(pc >= 0x0100, pc < 0xfe00-3))
	m.Set(pc, 0xcd)
	m.Set(pc+1, 0x05)
	m.Set(pc+2, 0x00)
	vAssume(vAnd(s.SP >= 0x0100+vStackRoom, s.SP <= 0xfe00))
	for i := uint16(0); i < 3; i++ {
		vAssume(vClearOfStack(pc+i, s.SP))
	}
}

// vRunCall steps until the call has returned (PC just after the CALL), at most max Steps
func vRunCall(cpu *z80.CPU, ret uint16, max int) {
	for i := 0; i < max; i++ {
		cpu.Step()
		if vCase(cpu.PC == ret) {
			return
		}
	}
}

func vReturned(cpu *z80.CPU, s z80.States, m, ref *Memory) {
	vAssert("returns-to-caller", cpu.PC == s.PC+3)
	vAssert("sp-restored", cpu.SP == s.SP)
	vAssert("not-halted", !cpu.HALT)
	// the caller's memory (program, data, stack above SP, and everything below the
	// return slot) is intact
	probe := vU16("probe")
	vAssume(vAnd(vOutsideBIOS(probe), vClearOfStack(probe, s.SP)))
	vAssert("memory-intact", m.Get(probe) == ref.Get(probe))
	vAssert("no-warning", vWarnCount() == 0)
}

func vCopyMem(m *Memory) *Memory {
	r := new(Memory)
	*r = *m
	return r
}

// BDOS function 2: console output of E
func VC18Fn2() {
	m, io, cons := vMachine()
	var s z80.States
	vHavoc(&s, "s")
	s.BC.Lo = 2
	vCaller(m, &s)
	ref := vCopyMem(m)
	cpu := &z80.CPU{States: s, Memory: m, IO: io}
	vRunCall(cpu, s.PC+3, 16) // today 8: CALL, JP, LD A,C, CP 2, JR Z, LD A,E, OUT (0),A, RET
	vAssert("one-byte", cons.n == 1)
	vAssert("byte-is-E", cons.buf[0] == s.DE.Lo)
	vReturned(cpu, s, m, ref)
}

// BDOS function 9: string of n bytes (none of them '$') followed by '$'
func VC18Fn9(n int) {
	m, io, cons := vMachine()
	var s z80.States
	vHavoc(&s, "s")
	s.BC.Lo = 9
	vCaller(m, &s)
	de := uint16(s.DE.Hi)<<8 | uint16(s.DE.Lo)
	str := vBytes("str", 8)
	for i := 0; i <= n; i++ {
		a := de + uint16(i)
		vAssume(vOutsideBIOS(a))
		vAssume(vOr(a < s.PC, a > s.PC+2))
		vAssume(vClearOfStack(a, s.SP))
		if i < n {
			vAssume(str[i] != '$')
			m.Set(a, str[i])
		} else {
			m.Set(a, '$')
		}
	}
	ref := vCopyMem(m)
	cpu := &z80.CPU{States: s, Memory: m, IO: io}
	vRunCall(cpu, s.PC+3, 16+10*n) // today 10+6n
	vAssert("length", cons.n == n)
	for i := 0; i < n && i < cons.n; i++ {
		vAssert("bytes-in-order", cons.buf[i] == str[i])
	}
	vReturned(cpu, s, m, ref)
}

// per-character lemma at the loop head 0xFE14 (strings of any length by induction)
func VC18Fn9Lemma() {
	m, io, cons := vMachine()
	// the lemma is written for the print loop of _z80/minibios.asm at 0xFE14:
	// LD A,(DE); CP '$'; RET Z; OUT (0),A; INC DE; JR loop.  With any other BIOS it
	// does not apply (the bounded end-to-end runs above still do).
	loop := [9]uint8{0x1a, 0xfe, 0x24, 0xc8, 0xd3, 0x00, 0x13, 0x18, 0xf7}
	for i := 0; i < 9; i++ {
		if m.Get(uint16(0xfe14+i)) != loop[i] {
			vStop("the BIOS print loop is not the one this lemma was written for")
		}
	}
	var s z80.States
	vHavoc(&s, "s")
	s.PC = 0xfe14
	de := uint16(s.DE.Hi)<<8 | uint16(s.DE.Lo)
	vAssume(vOutsideBIOS(de))
	ch := m.Get(de)
	ref := vCopyMem(m)
	cpu := &z80.CPU{States: s, Memory: m, IO: io}
	if vCase(ch != '$') {
		for i := 0; i < 6; i++ { // LD A,(DE); CP '$'; RET Z; OUT (0),A; INC DE; JR
			cpu.Step()
		}
		vAssert("char-written", vAnd(cons.n == 1, cons.buf[0] == ch))
		vAssert("back-at-loop-head", cpu.PC == 0xfe14)
		got := uint16(cpu.DE.Hi)<<8 | uint16(cpu.DE.Lo)
		vAssert("de-advanced", got == de+1)
		vAssert("sp-kept", cpu.SP == s.SP)
	} else {
		for i := 0; i < 3; i++ { // LD A,(DE); CP '$'; RET Z (taken)
			cpu.Step()
		}
		vAssert("nothing-written", cons.n == 0)
		vAssert("returns", vAnd(cpu.SP == s.SP+2, cpu.PC == uint16(ref.Get(s.SP))|uint16(ref.Get(s.SP+1))<<8))
	}
	probe := vU16("probe")
	vAssert("memory-intact", m.Get(probe) == ref.Get(probe))
	vAssert("no-warning", vWarnCount() == 0)
}

// a jump to address 0 ends the run halted at 0xFF03
func VC18WarmBoot() {
	m, io, cons := vMachine()
	var s z80.States
	vHavoc(&s, "s")
	pc := s.PC
	vAssume(vAnd(pc >= 0x0100, pc < 0xfe00-3))
	m.Set(pc, 0xc3)
	m.Set(pc+1, 0x00)
	m.Set(pc+2, 0x00)
	cpu := &z80.CPU{States: s, Memory: m, IO: io}
	for i := 0; i < 8; i++ { // today 3: JP 0, JP 0xFF03, HALT
		cpu.Step()
		if vCase(cpu.HALT) {
			break
		}
	}
	vAssert("halted-at-ff03", vAnd(cpu.HALT, cpu.PC == 0xff03))
	vAssert("silent", cons.n == 0)
	// still there when stepped again
	cpu.Step()
	vAssert("stays", vAnd(cpu.HALT, cpu.PC == 0xff03))
}

// the port device: port 0 is the console, everything else only warns
func VC18IO() {
	_, io, cons := vMachine()
	p, v, w := vU8("p"), vU8("v"), vU8("w")
	io.Out(0, v)
	io.Out(0, w)
	vAssert("program-order", vAnd(cons.n == 2, vAnd(cons.buf[0] == v, cons.buf[1] == w)))
	vAssert("no-warning-yet", vWarnCount() == 0)
	vAssume(p != 0)
	io.Out(p, v)
	vAssert("other-port-silent", cons.n == 2)
	vAssert("other-port-warns", vWarnCount() >= 1)
	// again, same port: still nothing on the console (whether it warns every
	// time or once per port is left open)
	io.Out(p, w)
	vAssert("other-port-silent-again", cons.n == 2)
	before := vWarnCount()
	q := vU8("q")
	r := io.In(q)
	vAssert("in-silent", cons.n == 2)
	vAssert("in-warns", vWarnCount() > before)
	_ = r // the value a port read returns is not part of the property
}

// a console that also offers WriteByte (an io.ByteWriter, like *bytes.Buffer or
// *bufio.Writer): however the IO delivers the byte, it must end up in this writer
type vConsoleB struct{ vConsole }

func (c *vConsoleB) WriteByte(b byte) error {
	if c.n < len(c.buf) {
		c.buf[c.n] = b
	}
	c.n++
	c.last = b
	return nil
}

// "the configured writer": the one set last.  Two writers (each plain or also a
// ByteWriter, kinds = 0..3) are configured one after the other; every byte goes
// to the writer configured at the time, nothing to the other.
func VC18Reconfig(kinds int) {
	_, io, _ := vMachine()
	pa, pb := &vConsole{}, &vConsole{}
	ba, bb := &vConsoleB{}, &vConsoleB{}
	a, b := pa, pb
	if kinds&1 != 0 {
		io.SetStdout(ba)
		a = &ba.vConsole
	} else {
		io.SetStdout(pa)
	}
	v1, v2, v3 := vU8("v1"), vU8("v2"), vU8("v3")
	io.Out(0, v1)
	vAssert("first-writer-gets-first-byte", vAnd(a.n == 1, a.buf[0] == v1))
	if kinds&2 != 0 {
		io.SetStdout(bb)
		b = &bb.vConsole
	} else {
		io.SetStdout(pb)
	}
	io.Out(0, v2)
	io.Out(0, v3)
	vAssert("second-writer-gets-the-rest", vAnd(b.n == 2, vAnd(b.buf[0] == v2, b.buf[1] == v3)))
	vAssert("first-writer-gets-nothing-more", a.n == 1)
	vAssert("no-warning", vWarnCount() == 0)
}

// volume: 70 000 console bytes in a row all reach the writer, in order (longer
// runs are outside the bound)
func VC18Volume() {
	_, io, cons := vMachine()
	v, w := vU8("v"), vU8("w")
	const n = 70000
	for i := 0; i < n-1; i++ {
		io.Out(0, v)
	}
	io.Out(0, w)
	vAssert("all-bytes-arrive", cons.n == n)
	vAssert("first", cons.buf[0] == v)
	vAssert("last-is-last", cons.last == w)
	vAssert("no-warning", vWarnCount() == 0)
}

// a sequence of calls: function 2, then function 9 with a one-character string
// (mixed sequences in general: by composition, each call returns with the
// caller's state intact)
func VC18Seq() {
	m, io, cons := vMachine()
	var s z80.States
	vHavoc(&s, "s")
	pc := s.PC
	vAssume(vAnd(pc >= 0x0100, pc < 0xfe00-8))
	prog := [8]uint8{0xcd, 0x05, 0x00, 0x0e, 0x09, 0xcd, 0x05, 0x00} // CALL 5 ; LD C,9 ; CALL 5
	for i := 0; i < 8; i++ {
		m.Set(pc+uint16(i), prog[i])
	}
	s.BC.Lo = 2
	vAssume(vAnd(s.SP >= 0x0100+vStackRoom, s.SP <= 0xfe00))
	for i := uint16(0); i < 8; i++ {
		vAssume(vClearOfStack(pc+i, s.SP))
	}
	de := uint16(s.DE.Hi)<<8 | uint16(s.DE.Lo)
	ch := vU8("ch")
	vAssume(ch != '$')
	for i := 0; i < 2; i++ {
		a := de + uint16(i)
		vAssume(vOutsideBIOS(a))
		vAssume(vOr(a < pc, a > pc+7))
		vAssume(vClearOfStack(a, s.SP))
	}
	m.Set(de, ch)
	m.Set(de+1, '$')
	cpu := &z80.CPU{States: s, Memory: m, IO: io}
	vRunCall(cpu, pc+8, 48) // today 25: fn 2 (8 Steps), LD C,9, fn 9 with one character (10+6)
	vAssert("two-bytes", cons.n == 2)
	vAssert("first-is-E", cons.buf[0] == s.DE.Lo)
	vAssert("then-the-string", cons.buf[1] == ch)
	vAssert("returns-after-second-call", cpu.PC == pc+8)
	vAssert("sp-restored", cpu.SP == s.SP)
	vAssert("no-warning", vWarnCount() == 0)
}
