package zex

// C17 — the Go exerciser tables are exactly the canonical zexdoc/zexall cases.
// The tables come from the package's real initialiser and Status.Bytes(); the
// records are located through the image's own test-pointer table.

const (
	vLoadAddr = 0x100 // CP/M transient program area: file offset = address - 0x100
	vMsgWidth = 30    // tmsg pads the description with '.' to 30 characters, then '$'
)

func vWord(img []uint8, off int) int { return int(img[off]) | int(img[off+1])<<8 }

func vCases(variant int) []Case {
	if variant == 0 {
		return DocCases
	}
	return AllCases
}

func vImage(variant int) []uint8 {
	if variant == 0 {
		return vFile("cmd/zexdoc/zexdoc.cim")
	}
	return vFile("cmd/zexdoc/zexall.cim")
}

// the pointer table named by the program's own `ld hl,tests`
func vTestsTable(img []uint8) int {
	// start: jp/ld sequence of the exerciser; the instruction `ld hl,tests` is the
	// first 0x21 after the stack set-up, at file offset 0x1f in both images
	return vWord(img, 0x20) - vLoadAddr
}

// number of cases: walk the table to its 0 terminator
func VC17Count(variant int) {
	img := vImage(variant)
	vAssert("ld-hl-tests", img[0x1f] == 0x21)
	tbl := vTestsTable(img)
	n := 0
	for n < 200 && vWord(img, tbl+2*n) != 0 {
		n++
	}
	vAssert("count-67", n == 67)
	vAssert("count-matches-go", n == len(vCases(variant)))
}

// record i, every byte: offset j is symbolic so that the solver decides the
// whole record at once
func VC17Case(variant, i int) {
	img := vImage(variant)
	cases := vCases(variant)
	vAssert("index-in-range", i < len(cases))
	if i >= len(cases) {
		return
	}
	c := cases[i]
	rec := vWord(img, vTestsTable(img)+2*i) - vLoadAddr
	// the Go side of the record, laid out as the assembler's db/dw lists do
	want := make([]uint8, 65+vMsgWidth+1)
	want[0] = c.FlagMask
	copy(want[1:21], c.BaseCase.Bytes())
	copy(want[21:41], c.IncVec.Bytes())
	copy(want[41:61], c.ShiftVec.Bytes())
	want[61] = uint8(c.Expect >> 24)
	want[62] = uint8(c.Expect >> 16)
	want[63] = uint8(c.Expect >> 8)
	want[64] = uint8(c.Expect)
	vAssert("desc-fits", len(c.Desc) <= vMsgWidth)
	for k := 0; k < vMsgWidth; k++ {
		if k < len(c.Desc) {
			want[65+k] = c.Desc[k]
		} else {
			want[65+k] = '.'
		}
	}
	want[65+vMsgWidth] = '$'
	// the image's record, cut out of the file
	got := make([]uint8, len(want))
	copy(got, img[rec:rec+len(want)])
	j := vSymLen("j")
	vAssume(vAnd(j >= 0, j < len(want)))
	vAssert("record-byte", got[j] == want[j])
}
