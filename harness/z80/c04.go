package z80

// C04, compositions: what single-Step equality with a model does not by itself
// say.  From an arbitrary state, assuming the second instruction is still the
// intended one after the first one's stack writes, the pair is the identity
// on the return path / on qq and SP.

// kind 0: CALL nn ; RET     kind 1: CALL cc[y],nn (taken) ; RET    kind 2: RST y*8 ; RET
func VC04CallRet(kind, y int) {
	var s States
	vHavoc(&s, "s")
	bus := vNewBus("bus")
	n := uint16(3)
	switch kind {
	case 0:
		bus.Poke(s.PC, 0xcd)
	case 1:
		bus.Poke(s.PC, uint8(0xc4+y*8))
		vAssume(specCond(y, s.AF.Lo))
	default:
		bus.Poke(s.PC, uint8(0xc7+y*8))
		n = 1
	}
	cpu := &CPU{States: s, Memory: bus, IO: bus}
	cpu.Step()
	vAssert("sp-lowered", cpu.SP == s.SP-2)
	vAssert("flags-kept-1", cpu.AF == s.AF)
	if kind == 2 {
		vAssert("rst-target", cpu.PC == uint16(y*8))
	}
	// the callee consists of a RET, still intact after the push
	vAssume(bus.Peek(cpu.PC) == 0xc9)
	cpu.Step()
	vAssert("resumes-after-call", cpu.PC == s.PC+n)
	vAssert("sp-restored", cpu.SP == s.SP)
	want := s
	want.PC = s.PC + n
	want.IR.Lo = cpu.IR.Lo
	vAssert("nothing-else", cpu.States == want)
}

// PUSH qq ; POP qq   q: 0 BC, 1 DE, 2 HL, 3 AF, 4 IX, 5 IY
func VC04PushPop(q int) {
	var s States
	vHavoc(&s, "s")
	bus := vNewBus("bus")
	n := uint16(1)
	switch {
	case q <= 3:
		bus.Poke(s.PC, uint8(0xc5+q*16))
	case q == 4:
		bus.Poke(s.PC, 0xdd)
		bus.Poke(s.PC+1, 0xe5)
		n = 2
	default:
		bus.Poke(s.PC, 0xfd)
		bus.Poke(s.PC+1, 0xe5)
		n = 2
	}
	cpu := &CPU{States: s, Memory: bus, IO: bus}
	cpu.Step()
	vAssert("sp-lowered", cpu.SP == s.SP-2)
	// the POP is still intact after the push (the stack may overlap anything else,
	// including the PUSH itself and SP wraparound)
	switch {
	case q <= 3:
		vAssume(bus.Peek(cpu.PC) == uint8(0xc1+q*16))
	case q == 4:
		vAssume(vAnd(bus.Peek(cpu.PC) == 0xdd, bus.Peek(cpu.PC+1) == 0xe1))
	default:
		vAssume(vAnd(bus.Peek(cpu.PC) == 0xfd, bus.Peek(cpu.PC+1) == 0xe1))
	}
	cpu.Step()
	want := s
	want.PC = s.PC + 2*n
	want.IR.Lo = cpu.IR.Lo
	vAssert("identity-on-qq-and-sp", cpu.States == want)
}
