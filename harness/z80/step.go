package z80

// One Step of one encoding from an arbitrary state, compared with the
// reference model.  The assertion names are what the per-property checks
// (C01, C02, C03, C04, C05, C14) select from.

// decode tables: 0 main, 1 CB, 2 ED, 3 DD, 4 FD, 5 DDCB, 6 FDCB
func vPlace(b *vBus, pc uint16, tbl, op int) {
	switch tbl {
	case 0:
		b.Poke(pc, uint8(op))
	case 1:
		b.Poke(pc, 0xcb)
		b.Poke(pc+1, uint8(op))
	case 2:
		b.Poke(pc, 0xed)
		b.Poke(pc+1, uint8(op))
	case 3:
		b.Poke(pc, 0xdd)
		b.Poke(pc+1, uint8(op))
	case 4:
		b.Poke(pc, 0xfd)
		b.Poke(pc+1, uint8(op))
	case 5:
		b.Poke(pc, 0xdd)
		b.Poke(pc+1, 0xcb)
		b.Poke(pc+3, uint8(op))
	default:
		b.Poke(pc, 0xfd)
		b.Poke(pc+1, 0xcb)
		b.Poke(pc+3, uint8(op))
	}
}

func VStep(tbl, op int) { vStepCore(tbl, op, false) }

// VStepRefused: the same Step with a maskable request pending and refused
// (IFF1 clear): the request is part of the pre-state too, the instruction must
// be just as exact, and the request must still be pending, untouched.
func VStepRefused(tbl, op int) { vStepCore(tbl, op, true) }

func vStepCore(tbl, op int, refused bool) {
	var pre States
	vHavoc(&pre, "s")
	halt := vBool("halt")
	bus := vNewBus("bus")
	vPlace(bus, pre.PC, tbl, op)
	sb := bus.Fork("spec")
	bus0 := bus.Fork("bus0")
	cpu := &CPU{States: pre, Memory: bus, IO: bus, HALT: halt}
	var it *Interrupt
	if refused {
		pre.IFF1 = false
		cpu.IFF1 = false
		it = &Interrupt{Type: IMType, Data: vBytes("d", 1)}
		cpu.Interrupt = it
	}
	cpu.Step()
	if refused {
		vAssert("pending", cpu.Interrupt == it)
		cpu.Interrupt = nil
	}
	o := vSpecStep(pre, sb, tbl, op)
	if !o.Impl && vSpecSiliconDefined(tbl, op) {
		// outside the implemented set: "consumed, no effect" or what silicon does
		sb2 := bus0.Fork("spec2")
		o2, _ := vSpecStepMode(pre, sb2, tbl, op, true)
		vAssert("unsupported", vOr(vMatchStep(cpu, halt, bus, sb, &o), vMatchStep(cpu, halt, bus, sb2, &o2)))
		return
	}
	vCompareStep(cpu, halt, bus, sb, &o)
}

// vMatchStep: the conjunction of everything vCompareStep asserts, as one value
func vMatchStep(cpu *CPU, halt bool, bus, sb *vBus, o *vSpecOut) bool {
	w := &o.S
	m := vAnd(cpu.AF.Hi == w.AF.Hi, (cpu.AF.Lo^w.AF.Lo)&o.FMask == 0)
	m = vAnd(m, vAnd(cpu.BC == w.BC, vAnd(cpu.DE == w.DE, cpu.HL == w.HL)))
	m = vAnd(m, vAnd(cpu.Alternate == w.Alternate, vAnd(cpu.IX == w.IX, cpu.IY == w.IY)))
	m = vAnd(m, vAnd(cpu.SP == w.SP, vAnd(cpu.PC == w.PC, cpu.IR.Hi == w.IR.Hi)))
	m = vAnd(m, vOr(cpu.IR.Lo == w.IR.Lo, vAnd(o.RAltOK, cpu.IR.Lo == o.RAlt)))
	m = vAnd(m, vOr(cpu.IFF1 == w.IFF1, vAnd(o.IFF1AltOK, cpu.IFF1 == o.IFF1Alt)))
	m = vAnd(m, vAnd(cpu.IFF2 == w.IFF2, cpu.IM == w.IM))
	m = vAnd(m, vOr(cpu.HALT == halt, !cpu.HALT))
	m = vAnd(m, cpu.Interrupt == nil)
	probe := vU16("probe")
	m = vAnd(m, bus.Peek(probe) == sb.Peek(probe))
	m = vAnd(m, vAnd(bus.Len() == sb.Len(), vTraceMultisetEq(bus, sb)))
	return m
}

func vCompareStep(cpu *CPU, halt bool, bus, sb *vBus, o *vSpecOut) {
	w := &o.S
	vAssert("A", cpu.AF.Hi == w.AF.Hi)
	vAssert("F", (cpu.AF.Lo^w.AF.Lo)&o.FMask == 0)
	vAssert("BC", cpu.BC == w.BC)
	vAssert("DE", cpu.DE == w.DE)
	vAssert("HL", cpu.HL == w.HL)
	vAssert("alt", cpu.Alternate == w.Alternate)
	vAssert("IX", cpu.IX == w.IX)
	vAssert("IY", cpu.IY == w.IY)
	vAssert("SP", cpu.SP == w.SP)
	vAssert("PC", cpu.PC == w.PC)
	vAssert("I", cpu.IR.Hi == w.IR.Hi)
	vAssert("R", vOr(cpu.IR.Lo == w.IR.Lo, vAnd(o.RAltOK, cpu.IR.Lo == o.RAlt)))
	vAssert("IFF1", vOr(cpu.IFF1 == w.IFF1, vAnd(o.IFF1AltOK, cpu.IFF1 == o.IFF1Alt)))
	vAssert("IFF2", cpu.IFF2 == w.IFF2)
	vAssert("IM", cpu.IM == w.IM)
	if o.HaltSet {
		vAssert("HALT", cpu.HALT)
	} else {
		vAssert("HALT", vOr(cpu.HALT == halt, !cpu.HALT))
	}
	vAssert("intr", cpu.Interrupt == nil)
	probe := vU16("probe")
	vAssert("mem", bus.Peek(probe) == sb.Peek(probe))
	vAssert("tracelen", bus.Len() == sb.Len())
	vAssert("trace", vTraceMultisetEq(bus, sb))
	// port log: same port accesses in the same order
	var bp, sp [16]int
	nb, ns := 0, 0
	for i := 0; i < bus.Len(); i++ {
		if bus.Kind(i) >= 2 {
			bp[nb] = i
			nb++
		}
	}
	for i := 0; i < sb.Len(); i++ {
		if sb.Kind(i) >= 2 {
			sp[ns] = i
			ns++
		}
	}
	vAssert("portcount", nb == ns)
	if nb == ns {
		for k := 0; k < nb; k++ {
			vAssert("ports", vAnd(bus.Kind(bp[k]) == sb.Kind(sp[k]), vAnd(bus.Addr(bp[k]) == sb.Addr(sp[k]), bus.Val(bp[k]) == sb.Val(sp[k]))))
		}
	}
	// no address is read after it was written in the same Step
	n := bus.Len()
	for i := 0; i < n; i++ {
		if bus.Kind(i) != 1 {
			continue
		}
		for j := i + 1; j < n; j++ {
			if bus.Kind(j) == 0 {
				vAssert("rmw-order", bus.Addr(i) != bus.Addr(j))
			}
		}
	}
}

// Second Step on the same CPU object, on a fresh memory: after Step(X) from an
// arbitrary state the CPU is attached to a second, entirely arbitrary bus (bank
// switch / DMA: memory is external and may change between Steps) holding Y at
// the new PC; the second Step must be exactly Step(Y) from the boundary state on
// that memory.  Anything the first Step remembered about memory contents, the
// decoded instruction or the stack frame shows as a difference.
func VStep2(tblX, opX, tblY, opY int) {
	var pre States
	vHavoc(&pre, "s")
	busA := vNewBus("bus")
	vPlace(busA, pre.PC, tblX, opX)
	cpu := &CPU{States: pre, Memory: busA, IO: busA}
	cpu.Step()
	mid, midHalt := cpu.States, cpu.HALT
	busB := vNewBus("busB")
	vPlace(busB, mid.PC, tblY, opY)
	sb := busB.Fork("specB")
	busB0 := busB.Fork("busB0")
	cpu.Memory, cpu.IO = busB, busB
	cpu.Step()
	o := vSpecStep(mid, sb, tblY, opY)
	if !o.Impl && vSpecSiliconDefined(tblY, opY) {
		sb2 := busB0.Fork("specB2")
		o2, _ := vSpecStepMode(mid, sb2, tblY, opY, true)
		vAssert("unsupported", vOr(vMatchStep(cpu, midHalt, busB, sb, &o), vMatchStep(cpu, midHalt, busB, sb2, &o2)))
		return
	}
	vCompareStep(cpu, midHalt, busB, sb, &o)
}
