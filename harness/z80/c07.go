package z80

// C07 — an interrupt at any instruction boundary is transparent.
// Lemma, from an arbitrary boundary state S (any PC: also on a partially
// executed block instruction or on a HALT): accept; EI; RETI (NMI: accept;
// RETN) ends in S again, outside the two stack bytes and the low bits of R.

// kind: 0 NMI, 1 IM1, 2 IM2, 3 IM0 + RST p, 4 IM0 + CALL nn
func VC07(kind, p int) {
	var s States
	vHavoc(&s, "s")
	halt := vBool("halt")
	bus := vNewBus("bus")
	var it *Interrupt
	dlen := uint16(0)
	switch kind {
	case 0:
		s.IFF2 = s.IFF1
		it = NMIInterrupt()
	case 1:
		s.IFF1, s.IFF2, s.IM = true, true, 1
		it = IM1Interrupt()
	case 2:
		s.IFF1, s.IFF2, s.IM = true, true, 2
		it = IM2Interrupt(vU8("vector"))
	case 3:
		s.IFF1, s.IFF2, s.IM = true, true, 0
		it = IM0Interrupt(uint8(0xc7 | p<<3))
		dlen = 1
	default:
		s.IFF1, s.IFF2, s.IM = true, true, 0
		it = IM0Interrupt(0xcd, vU8("nnlo"), vU8("nnhi"))
		dlen = 3
	}
	ref := bus.Fork("ref")
	cpu := &CPU{States: s, Memory: bus, IO: bus, HALT: halt, Interrupt: it}
	cpu.Step() // acceptance
	vAssert("accepted", cpu.Interrupt == nil)
	h := cpu.PC
	// the minimal transparent handler sits at the handler address
	if kind == 0 {
		vAssume(vAnd(bus.Peek(h) == 0xed, bus.Peek(h+1) == 0x45)) // RETN
		cpu.Step()
	} else {
		vAssume(vAnd(bus.Peek(h) == 0xfb, vAnd(bus.Peek(h+1) == 0xed, bus.Peek(h+2) == 0x4d))) // EI; RETI
		cpu.Step()
		cpu.Step()
	}
	vAssert("state", vEqModR(cpu.States, s))
	vAssert("HALT", vOr(cpu.HALT == halt, !cpu.HALT))
	probe := vU16("probe")
	vAssume(vAnd(probe != s.SP-1, probe != s.SP-2))
	vAssert("mem", bus.Peek(probe) == ref.Peek(probe))
	if kind >= 3 {
		// residual obligation of the known finding: exactly PC is off, by len(Data)
		k := s
		k.PC = s.PC + dlen
		vAssert("residual", vEqModR(cpu.States, k))
	}
}

// Relational form: (accept; handler; return; X) ends like (X) alone, for the
// instruction X at the boundary, with every hidden CPU field arbitrary but
// equal in both runs.  Catches latent state lost or created by an acceptance
// that the identity lemma (which compares with the boundary state) cannot see.
// kind: 0 NMI, 1 IM1, 2 IM2
func VC07Rel(kind, tbl, op int) {
	var s States
	vHavoc(&s, "s")
	var it *Interrupt
	switch kind {
	case 0:
		s.IFF2 = s.IFF1
		it = NMIInterrupt()
	case 1:
		s.IFF1, s.IFF2, s.IM = true, true, 1
		it = IM1Interrupt()
	default:
		s.IFF1, s.IFF2, s.IM = true, true, 2
		it = IM2Interrupt(vU8("vector"))
	}
	busA := vNewBus("bus")
	vPlace(busA, s.PC, tbl, op)
	busB := busA.Fork("busB")
	var a, b CPU
	vHavocFields(&a, "h", vPublicCPU)
	b = a
	a.States, b.States = s, s
	a.Memory, a.IO = busA, busA
	b.Memory, b.IO = busB, busB
	a.Interrupt = it
	a.Step() // acceptance
	if kind == 0 {
		// an NMI is taken at the boundary it arrives at, whatever went before
		vAssert("nmi-accepted-at-boundary", a.Interrupt == nil)
	}
	if a.Interrupt != nil {
		vStop("acceptance delayed (allowed right after EI); covered by C06")
	}
	h := a.PC
	if kind == 0 {
		vAssume(vAnd(busA.Peek(h) == 0xed, busA.Peek(h+1) == 0x45))
		a.Step()
	} else {
		vAssume(vAnd(busA.Peek(h) == 0xfb, vAnd(busA.Peek(h+1) == 0xed, busA.Peek(h+2) == 0x4d)))
		a.Step()
		a.Step()
	}
	vAssert("resumes-at-boundary", a.PC == s.PC)
	// X must still be intact after the two stack writes
	vAssume(vAnd(vAnd(busA.Peek(s.PC) == busB.Peek(s.PC), busA.Peek(s.PC+1) == busB.Peek(s.PC+1)),
		vAnd(busA.Peek(s.PC+2) == busB.Peek(s.PC+2), busA.Peek(s.PC+3) == busB.Peek(s.PC+3))))
	busA.ResetTrace()
	a.Step() // X after the interrupt
	b.Step() // X alone
	// programs that inspect the stack hole are outside the claim
	for i := 0; i < busB.Len(); i++ {
		if busB.Kind(i) == 0 {
			vAssume(vAnd(busB.Addr(i) != s.SP-1, busB.Addr(i) != s.SP-2))
		}
	}
	vAssert("state", vEqModR(a.States, b.States))
	vAssert("HALT", a.HALT == b.HALT)
	vAssert("trace", vTraceSeqEq(busA, busB))
	probe := vU16("probe")
	vAssume(vAnd(probe != s.SP-1, probe != s.SP-2))
	vAssert("mem", busA.Peek(probe) == busB.Peek(probe))
}
