package z80

import (
	"bytes"
	"math/bits"
)

// Micro-functions for translator validation of the engine's operator
// semantics: every integer operator at every width and signedness, shifts
// with counts beyond the width, conversions in all directions.  Observed
// natively and through the encoder on the same vectors (zsym tv).

func VMicro() {
	a8, b8 := vU8("a8"), vU8("b8")
	a16, b16 := vU16("a16"), vU16("b16")
	a32, b32 := vU32("a32"), vU32("b32")
	a64, b64 := vU64("a64"), vU64("b64")
	sa8, sb8 := int8(a8), int8(b8)
	sa16, sb16 := int16(a16), int16(b16)
	sa32, sb32 := int32(a32), int32(b32)
	sa64, sb64 := int64(a64), int64(b64)
	n := vU8("shift") // 0..255: counts beyond every width included

	vObserve("u8.add", uint64(a8+b8))
	vObserve("u8.sub", uint64(a8-b8))
	vObserve("u8.mul", uint64(a8*b8))
	vObserve("u8.div", uint64(a8/(b8|1)))
	vObserve("u8.rem", uint64(a8%(b8|1)))
	vObserve("u8.and", uint64(a8&b8))
	vObserve("u8.or", uint64(a8|b8))
	vObserve("u8.xor", uint64(a8^b8))
	vObserve("u8.andnot", uint64(a8&^b8))
	vObserve("u8.shl", uint64(a8<<n))
	vObserve("u8.shr", uint64(a8>>n))
	vObserve("u8.not", uint64(^a8))
	vObserve("u8.neg", uint64(-a8))
	vObserve("u8.lt", vB(a8 < b8))
	vObserve("u8.le", vB(a8 <= b8))
	vObserve("u8.shlc", uint64(a8<<3|a8>>5))

	// strength-reduction rules: powers of two, and sums of bit-disjoint terms
	vObserve("u8.mul16", uint64(a8*16))
	vObserve("u8.div16", uint64(a8/16))
	vObserve("u8.rem16", uint64(a8%16))
	vObserve("u16.hilo.add", uint64(uint16(a8)*256+uint16(b8)))
	vObserve("u16.hilo.add2", uint64(uint16(b8)+uint16(a8)<<8))
	vObserve("u16.div256", uint64(a16/256))
	vObserve("u16.rem256", uint64(a16%256))
	vObserve("u16.mul256", uint64(a16*256))
	vObserve("u32.mul64k", uint64(a32*65536))
	vObserve("u64.div2", a64/2)
	vObserve("u64.mulhi", a64*(1<<63))
	vObserve("u16.nodisjoint", uint64(uint16(a8)*128+uint16(b8)))
	vObserve("i16.mul256", uint64(uint16(sa16*256)))
	vObserve("u16.masked.add", uint64((a16&0xff00)+(b16&0x00ff)))
	vObserve("u16.masked.add2", uint64((a16&0xff80)+(b16&0x00ff)))

	vObserve("i8.add", uint64(uint8(sa8+sb8)))
	vObserve("i8.mul", uint64(uint8(sa8*sb8)))
	vObserve("i8.div", uint64(uint8(sa8/(sb8|1))))
	vObserve("i8.rem", uint64(uint8(sa8%(sb8|1))))
	vObserve("i8.shl", uint64(uint8(sa8<<n)))
	vObserve("i8.shr", uint64(uint8(sa8>>n)))
	vObserve("i8.neg", uint64(uint8(-sa8)))
	vObserve("i8.lt", vB(sa8 < sb8))
	vObserve("i8.ge", vB(sa8 >= sb8))

	vObserve("u16.add", uint64(a16+b16))
	vObserve("u16.mul", uint64(a16*b16))
	vObserve("u16.div", uint64(a16/(b16|1)))
	vObserve("u16.rem", uint64(a16%(b16|1)))
	vObserve("u16.shl", uint64(a16<<n))
	vObserve("u16.shr", uint64(a16>>n))
	vObserve("u16.shr16", uint64(a16>>uint16(n)))
	vObserve("u16.gt", vB(a16 > b16))
	vObserve("i16.div", uint64(uint16(sa16/(sb16|1))))
	vObserve("i16.rem", uint64(uint16(sa16%(sb16|1))))
	vObserve("i16.shr", uint64(uint16(sa16>>n)))
	vObserve("i16.lt", vB(sa16 < sb16))

	vObserve("u32.add", uint64(a32+b32))
	vObserve("u32.mul", uint64(a32*b32))
	vObserve("u32.div", uint64(a32/(b32|1)))
	vObserve("u32.shl", uint64(a32<<n))
	vObserve("u32.shr", uint64(a32>>n))
	vObserve("i32.div", uint64(uint32(sa32/(sb32|1))))
	vObserve("i32.rem", uint64(uint32(sa32%(sb32|1))))
	vObserve("i32.shr", uint64(uint32(sa32>>n)))
	vObserve("i32.le", vB(sa32 <= sb32))

	vObserve("u64.add", a64+b64)
	vObserve("u64.sub", a64-b64)
	vObserve("u64.mul", a64*b64)
	vObserve("u64.div", a64/(b64|1))
	vObserve("u64.rem", a64%(b64|1))
	vObserve("u64.shl", a64<<n)
	vObserve("u64.shr", a64>>n)
	vObserve("u64.shl64", a64<<(b64&0x7f))
	vObserve("i64.div", uint64(sa64/(sb64|1)))
	vObserve("i64.rem", uint64(sa64%(sb64|1)))
	vObserve("i64.shr", uint64(sa64>>n))
	vObserve("i64.lt", vB(sa64 < sb64))
	vObserve("i64.neg", uint64(-sa64))

	// conversions: widen signed / unsigned, narrow, reinterpret
	vObserve("c.u8u16", uint64(uint16(a8)))
	vObserve("c.i8i16", uint64(uint16(int16(sa8))))
	vObserve("c.i8u16", uint64(uint16(sa8)))
	vObserve("c.i8i64", uint64(int64(sa8)))
	vObserve("c.u16u8", uint64(uint8(a16)))
	vObserve("c.i16i8", uint64(uint8(int8(sa16))))
	vObserve("c.i16i32", uint64(uint32(int32(sa16))))
	vObserve("c.u32u64", uint64(a32))
	vObserve("c.i32i64", uint64(int64(sa32)))
	vObserve("c.i32int", uint64(int(sa32)))
	vObserve("c.u64u8", uint64(uint8(a64)))
	vObserve("c.i64i16", uint64(uint16(int16(sa64))))
	vObserve("c.int8chain", uint64(uint16(int16(int8(a8)))))
	vObserve("c.addroff", uint64(a16+uint16(int16(int8(b8)))))
	// math/bits stubs
	vObserve("bits.ones8", uint64(bits.OnesCount8(a8)))
	vObserve("bits.ones16", uint64(bits.OnesCount16(a16)))
	vObserve("bits.len8", uint64(bits.Len8(a8)))
	vObserve("bits.len64", uint64(bits.Len64(a64)))
	vObserve("bits.len", uint64(bits.Len(uint(a32))))
	vObserve("bits.tz8", uint64(bits.TrailingZeros8(a8)))
	vObserve("bits.tz16", uint64(bits.TrailingZeros16(a16)))
	vObserve("bits.lz8", uint64(bits.LeadingZeros8(a8)))
	vObserve("bits.lz32", uint64(bits.LeadingZeros32(a32)))
	vObserve("bits.rot8", uint64(bits.RotateLeft8(a8, int(n&15))))
	vObserve("bits.rot8n", uint64(bits.RotateLeft8(a8, -int(n&15))))
	vObserve("bits.rot16", uint64(bits.RotateLeft16(a16, int(sa8))))
	vObserve("min", uint64(min(a8, b8)))
	vObserve("max.i", uint64(uint8(max(sa8, sb8))))
	// mixed idioms of the code base
	vObserve("m.concat", uint64(uint16(a8)<<8|uint16(b8)))
	vObserve("m.hi", uint64(uint8(a16>>8)))
	vObserve("m.carry", uint64(uint8((uint16(a8)+uint16(b8))>>8)))
	vObserve("m.bit", vB(a8&(1<<(n&7)) != 0))
	vObserve("m.ite", uint64(vIteU8(a8 < b8, a8, b8)))
	vObserve("m.bool", vB(vAnd(a8 < b8, vOr(a16 == b16, !(a32 > b32)))))
}

// Aggregate encodings: ground tables read at a symbolic index (multiplexer
// trees), block copies and appends with symbolic counts (ArrCopy terms), copies
// of struct elements, the interpreted bytes.Buffer.  Kept apart from VMicro
// (and run as few jobs) because every symbolic count forks.
func VMicroAgg() {
	a8, b8 := vU8("a8"), vU8("b8")
	a16, b16 := vU16("a16"), vU16("b16")
	n := vU8("shift")
	// aggregates: ground table read at a symbolic index (multiplexer encoding),
	// block copies and appends with symbolic counts (ArrCopy terms), bytes.Buffer
	vObserve("tbl.sq", uint64(vMicroTable[a8]))
	vObserve("tbl.sq16", uint64(vMicroTable16[uint16(a8)<<1|uint16(b8&1)]))
	src := vBytes("src", 16)
	buf := make([]uint8, 16)
	for i := range buf {
		buf[i] = uint8(0xa0 + i)
	}
	cnt := int(a8 % 14) // never more than the destination holds: no fork on the minimum
	off := 3
	got := copy(buf[off:], src[:cnt])
	vObserve("copy.n", uint64(got))
	vObserve("copy.at", uint64(buf[int(n%16)]))
	copy(buf[2:], buf[:int(b8%12)]) // overlapping, symbolic count
	vObserve("copy.overlap", uint64(buf[int(a16%16)]))
	ap := make([]uint8, 2, 8)
	ap[0], ap[1] = 0x11, 0x22
	ap2 := append(ap, src[:int(a16%10)]...)
	vObserve("append.len", uint64(len(ap2)))
	vObserve("append.at", uint64(ap2[int(b16)%len(ap2)]))
	vObserve("append.alias", uint64(ap[:8][int(n%8)]))
	var bb bytes.Buffer
	bb.WriteByte(a8)
	bb.Write(src[:int(b16%9)])
	bb.WriteByte(b8)
	out := bb.Bytes()
	ps := []vMicroPair{{a8, b8}, {b8, a8}, {n, a8}, {a8 + 1, n}, {7, 9}}
	copy(ps[1:], ps[:3]) // overlapping copy of struct elements
	vObserve("copy.struct", uint64(ps[3].a)<<8|uint64(ps[2].b))
	qs := ps[:0]
	for _, p := range ps[:2] {
		if p.a&1 == 0 {
			qs = append(qs, p) // in-place filter: append into the same backing array
		}
	}
	vObserve("filter.len", uint64(len(qs)))
	vObserve("filter.first", uint64(ps[0].a)<<8|uint64(ps[0].b))
	vObserve("buffer.len", uint64(len(out)))
	vObserve("buffer.at", uint64(out[int(a16)%len(out)]))
}

type vMicroPair struct{ a, b uint8 }

var vMicroTable = func() (t [256]uint8) {
	for i := range t {
		t[i] = uint8(i*i + 3*i + 1)
	}
	return
}()

var vMicroTable16 = func() (t [512]uint16) {
	for i := range t {
		t[i] = uint16(i*i*7 + 11)
	}
	return
}()
