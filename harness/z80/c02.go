package z80

// C02, oracle-free half: every operand encoding of the same operation agrees.
// The form with operand B is the canonical one; every other form is run from
// an independent state that agrees with it on A, F and the operand *value*
// only, and must produce the same A', F' and written result.  An error in the
// reference model cannot fool this check.

// operand forms: 0..7 = r[z] (B C D E H L (HL) A), 8 = immediate n,
// 9 IXH, 10 IXL, 11 IYH, 12 IYL, 13 (IX+d), 14 (IY+d), 15 = B under DD, 16 = B under FD
func vFormRegIndex(f int) (z, ix int) {
	switch f {
	case 9:
		return 4, 1
	case 10:
		return 5, 1
	case 11:
		return 4, 2
	case 12:
		return 5, 2
	case 15:
		return 0, 1
	case 16:
		return 0, 2
	}
	return f, 0
}

func vFormIsMem(f int) bool { return f == 6 || f == 13 || f == 14 }

// encoding of operation (class, y) on operand form f
// class 0: alu[y] A,operand   1: INC (y=0) / DEC (y=1) operand
// class 2: rot[y]   3: BIT y   4: RES y   5: SET y
func vFormEnc(class, y, f int) (tbl, op int) {
	z, ix := vFormRegIndex(f)
	tbl = 0
	if ix == 1 {
		tbl = 3
	} else if ix == 2 {
		tbl = 4
	}
	switch class {
	case 0:
		switch f {
		case 8:
			return 0, 0xc6 + y*8
		case 13:
			return 3, 0x86 + y*8
		case 14:
			return 4, 0x86 + y*8
		}
		return tbl, 0x80 + y*8 + z
	case 1:
		switch f {
		case 13:
			return 3, 0x34 + y
		case 14:
			return 4, 0x34 + y
		}
		return tbl, 0x04 + z*8 + y
	}
	x := class - 2
	switch f {
	case 13:
		return 5, x<<6 | y<<3 | 6
	case 14:
		return 6, x<<6 | y<<3 | 6
	}
	return 1, x<<6 | y<<3 | z
}

// address of a memory operand in state s (d is the displacement byte in the code)
func vFormAddr(s *States, bus *vBus, f int) uint16 {
	switch f {
	case 13:
		return specRel(s.IX, bus.Peek(s.PC+2))
	case 14:
		return specRel(s.IY, bus.Peek(s.PC+2))
	}
	return specW(s.HL.Hi, s.HL.Lo)
}

func vFormGet(s *States, bus *vBus, f int) uint8 {
	if f == 8 {
		return bus.Peek(s.PC + 1)
	}
	if vFormIsMem(f) {
		return bus.Peek(vFormAddr(s, bus, f))
	}
	z, ix := vFormRegIndex(f)
	return specGetR(s, z, ix)
}

func VC02Agree(class, y, f int) {
	var s1, s2 States
	vHavoc(&s1, "s1")
	vHavoc(&s2, "s2")
	bus1 := vNewBus("bus1")
	bus2 := vNewBus("bus2")
	t1, o1 := vFormEnc(class, y, 0)
	t2, o2 := vFormEnc(class, y, f)
	vPlace(bus1, s1.PC, t1, o1)
	vPlace(bus2, s2.PC, t2, o2)
	pre2 := s2
	a2 := vFormAddr(&pre2, bus2, f)
	if vFormIsMem(f) {
		// the operand does not sit on the instruction's own bytes
		vAssume(a2-s2.PC >= 4)
	}
	// same A, same F, same operand value
	vAssume(vAnd(s1.AF.Hi == s2.AF.Hi, s1.AF.Lo == s2.AF.Lo))
	vAssume(vFormGet(&s1, bus1, 0) == vFormGet(&pre2, bus2, f))
	c1 := &CPU{States: s1, Memory: bus1, IO: bus1}
	c2 := &CPU{States: s2, Memory: bus2, IO: bus2}
	c1.Step()
	c2.Step()
	fmask := uint8(0xff)
	if class == 3 && vFormIsMem(f) {
		fmask = 0xff &^ 0x28 // BIT on a memory operand: bits 5/3 unspecified
	}
	if class == 0 {
		vAssert("A", c1.AF.Hi == c2.AF.Hi)
	}
	vAssert("F", (c1.AF.Lo^c2.AF.Lo)&fmask == 0)
	if class == 1 || class == 2 || class >= 4 {
		// the written result
		r1 := specGetR(&c1.States, 0, 0)
		var r2 uint8
		if vFormIsMem(f) {
			r2 = bus2.Peek(a2)
		} else {
			z, ix := vFormRegIndex(f)
			r2 = specGetR(&c2.States, z, ix)
		}
		vAssert("result", r1 == r2)
	}
	if class == 3 {
		// BIT writes nothing
		if vFormIsMem(f) {
			vAssert("bit-no-write", bus2.CountKind(1) == 0)
		} else {
			z, ix := vFormRegIndex(f)
			vAssert("bit-no-write", specGetR(&c2.States, z, ix) == specGetR(&pre2, z, ix))
		}
	}
}
