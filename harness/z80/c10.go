package z80

// C10 — the outcome of a Step is a function of States, the pending request
// and the bytes memory and ports return.  Two CPUs that agree on those and
// differ in every other field of CPU take equal Steps.

// fields of CPU that are the public state / the attached devices; every other
// field (HALT, BreakPoints and whatever is added later) is "hidden" for C10.
const vPublicCPU = "States,Memory,IO,Interrupt,RETNHandler,RETIHandler"

func VC10(tbl, op int) {
	var s States
	vHavoc(&s, "s")
	bus1 := vNewBus("bus")
	vPlace(bus1, s.PC, tbl, op)
	bus2 := bus1.Fork("bus2")
	var c1, c2 CPU
	vHavocFields(&c1, "h1", vPublicCPU)
	vHavocFields(&c2, "h2", vPublicCPU)
	c1.States, c2.States = s, s
	c1.Memory, c1.IO = bus1, bus1
	c2.Memory, c2.IO = bus2, bus2
	c1.Step()
	c2.Step()
	vAssert("state", c1.States == c2.States)
	vAssert("intr", vAnd(c1.Interrupt == nil, c2.Interrupt == nil))
	vAssert("trace", vTraceSeqEq(bus1, bus2))
	probe := vU16("probe")
	vAssert("mem", bus1.Peek(probe) == bus2.Peek(probe))
}

// request forms: equal States + equal pending request, hidden fields differ.
// kind: 0 NMI, 1 maskable; n = len(Data); d0 = first supplied byte in mode 0;
// a NOP is pinned at PC for refused requests
func VC10Req(kind, im, n, d0 int) {
	var s States
	vHavoc(&s, "s")
	if im >= 0 {
		s.IM = im
	}
	bus1 := vNewBus("bus")
	bus1.Poke(s.PC, 0)
	bus2 := bus1.Fork("bus2")
	var c1, c2 CPU
	vHavocFields(&c1, "h1", vPublicCPU)
	vHavocFields(&c2, "h2", vPublicCPU)
	c1.States, c2.States = s, s
	c1.Memory, c1.IO = bus1, bus1
	c2.Memory, c2.IO = bus2, bus2
	t := NMIType
	if kind == 1 {
		t = IMType
	}
	c1.Interrupt = &Interrupt{Type: t, Data: vBytes("d", n)}
	c2.Interrupt = &Interrupt{Type: t, Data: vBytes("d", n)}
	if im == 0 && n > 0 {
		// mode 0 executes the supplied byte: pinned to d0 (RST 38h, or an instruction
		// that goes on reading operands or data at and after PC: CALL nn, LD A,(HL),
		// LD A,(nn), LD (HL),n - supplied in full or in part)
		c1.Interrupt.Data[0] = uint8(d0)
		c2.Interrupt.Data[0] = uint8(d0)
	}
	c1.Step()
	c2.Step()
	vAssert("state", c1.States == c2.States)
	vAssert("pending", (c1.Interrupt == nil) == (c2.Interrupt == nil))
	vAssert("trace", vTraceSeqEq(bus1, bus2))
	probe := vU16("probe")
	vAssert("mem", bus1.Peek(probe) == bus2.Peek(probe))
}

// requests built through the public constructors (the objects a user hands to
// the CPU): form 0 NMIInterrupt, 1 IM1Interrupt, 2 IM2Interrupt(v), 3
// IM0Interrupt(RST 38h), 4 IM0Interrupt(CALL nn).  A mode-2 request met in mode
// 0 would execute its (arbitrary) vector byte as an opcode: left to C12.
func vCtorReq(form int, name string) *Interrupt {
	switch form {
	case 0:
		return NMIInterrupt()
	case 1:
		return IM1Interrupt()
	case 2:
		return IM2Interrupt(vU8(name + ".v"))
	case 3:
		return IM0Interrupt(0xff)
	}
	return IM0Interrupt(0xcd, vU8(name+".lo"), vU8(name+".hi"))
}

// Isolation sandwich: CPU 1 takes a Step with a constructor-built request; an
// unrelated CPU 0 (own state, own memory, own request, any mode) takes a Step;
// CPU 2 - equal to CPU 1 before its Step, request built again with the same
// arguments - takes a Step.  CPU 2 must end like CPU 1: CPU 0 cannot have
// influenced it through anything the constructors or Step share.
func VC10Sandwich(form0, form int) {
	var s, s0 States
	vHavoc(&s, "s")
	vHavoc(&s0, "s0")
	bus1 := vNewBus("bus")
	bus1.Poke(s.PC, 0)
	bus2 := bus1.Fork("bus2")
	bus0 := vNewBus("bus0")
	bus0.Poke(s0.PC, 0)
	if form == 2 {
		vAssume(s.IM != 0)
	}
	if form0 == 2 {
		vAssume(s0.IM != 0)
	}
	c1 := &CPU{States: s, Memory: bus1, IO: bus1}
	c2 := &CPU{States: s, Memory: bus2, IO: bus2}
	c0 := &CPU{States: s0, Memory: bus0, IO: bus0}
	c1.Interrupt = vCtorReq(form, "r")
	c1.Step()
	c0.Interrupt = vCtorReq(form0, "r0")
	c0.Step()
	c2.Interrupt = vCtorReq(form, "r")
	c2.Step()
	vAssert("state", c1.States == c2.States)
	vAssert("pending", (c1.Interrupt == nil) == (c2.Interrupt == nil))
	vAssert("trace", vTraceSeqEq(bus1, bus2))
	probe := vU16("probe")
	vAssert("mem", bus1.Peek(probe) == bus2.Peek(probe))
}

// no I/O device attached (IO == nil, a supported configuration): the same
// 2-copy obligation for the I/O encodings, and the sandwich - CPU 1 reads a
// port, an unrelated device-less CPU 0 writes any port, CPU 2 (equal to CPU 1)
// reads the port again and must see what CPU 1 saw.
func VC10NilIO(tbl, op int) {
	var s, s0 States
	vHavoc(&s, "s")
	vHavoc(&s0, "s0")
	bus1 := vNewBus("bus")
	vPlace(bus1, s.PC, tbl, op)
	bus2 := bus1.Fork("bus2")
	bus0 := vNewBus("bus0")
	k := vU8("k")
	if vCase(vBool("out-n")) {
		vPut(bus0, s0.PC, 0xd3, int(k)) // OUT (n),A
	} else {
		vPut(bus0, s0.PC, 0xed, 0x79) // OUT (C),A
	}
	var c1, c2 CPU
	vHavocFields(&c1, "h1", vPublicCPU)
	vHavocFields(&c2, "h2", vPublicCPU)
	c1.States, c2.States = s, s
	c1.Memory, c2.Memory = bus1, bus2
	c0 := &CPU{States: s0, Memory: bus0}
	c1.Step()
	c0.Step()
	c2.Step()
	vAssert("state", c1.States == c2.States)
	vAssert("trace", vTraceSeqEq(bus1, bus2))
	probe := vU16("probe")
	vAssert("mem", bus1.Peek(probe) == bus2.Peek(probe))
}

// a CPU rebuilt from a copy of States and memory at the boundary after any
// instruction continues exactly like the original.
// mode: 0 = the next instruction is a NOP; 1 = a maskable request (mode 1) is
// pending at that boundary; 2 = an NMI is pending
func VC10Rebuild(tbl, op, mode int) {
	var s States
	vHavoc(&s, "s")
	if mode == 1 {
		s.IM = 1
	}
	bus1 := vNewBus("bus")
	vPlace(bus1, s.PC, tbl, op)
	orig := &CPU{States: s, Memory: bus1, IO: bus1}
	orig.Step()
	// the boundary: snapshot of States and memory
	bus1.Poke(orig.PC, 0)
	bus2 := bus1.Fork("bus2")
	rebuilt := &CPU{States: orig.States, Memory: bus2, IO: bus2}
	switch mode {
	case 1:
		orig.Interrupt = IM1Interrupt()
		rebuilt.Interrupt = IM1Interrupt()
	case 2:
		orig.Interrupt = NMIInterrupt()
		rebuilt.Interrupt = NMIInterrupt()
	}
	bus1.ResetTrace()
	orig.Step()
	rebuilt.Step()
	vAssert("state", orig.States == rebuilt.States)
	vAssert("pending", (orig.Interrupt == nil) == (rebuilt.Interrupt == nil))
	vAssert("trace", vTraceSeqEq(bus1, bus2))
	probe := vU16("probe")
	vAssert("mem", bus1.Peek(probe) == bus2.Peek(probe))
}

// native-only confirmation of a footprint finding: several CPUs, each on its
// own memory, Step the same encoding concurrently; run under go test -race.
// (The engine never executes this harness.)
func VC10Concurrent(tbl, op int) {
	done := make(chan bool)
	for g := 0; g < 4; g++ {
		go func(g int) {
			bus := vNewBus("bus")
			vPlace(bus, 0x4000, tbl, op)
			cpu := &CPU{Memory: bus, IO: bus}
			cpu.SP = 0x8000
			for i := 0; i < 3000; i++ {
				cpu.PC = 0x4000
				cpu.AF.Hi, cpu.AF.Lo = uint8(i), uint8(i>>8)
				cpu.Step()
				bus.ResetTrace()
			}
			done <- true
		}(g)
	}
	for g := 0; g < 4; g++ {
		<-done
	}
}
