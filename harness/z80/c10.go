package z80

// C10 — the outcome of a Step is a function of States, the pending request
// and the bytes memory and ports return.  Two CPUs that agree on those and
// differ in every other field of CPU take equal Steps.

// fields of CPU that are the public state / the attached devices; every other
// field (HALT, BreakPoints and whatever is added later) is "hidden" for C10.
const vPublicCPU = "States,Memory,IO,Interrupt,RETNHandler,RETIHandler"

func VC10(tbl, op int) {
	var s States
	vHavoc(&s, "s")
	bus1 := vNewBus("bus")
	vPlace(bus1, s.PC, tbl, op)
	bus2 := bus1.Fork("bus2")
	var c1, c2 CPU
	vHavocFields(&c1, "h1", vPublicCPU)
	vHavocFields(&c2, "h2", vPublicCPU)
	c1.States, c2.States = s, s
	c1.Memory, c1.IO = bus1, bus1
	c2.Memory, c2.IO = bus2, bus2
	c1.Step()
	c2.Step()
	vAssert("state", c1.States == c2.States)
	vAssert("intr", vAnd(c1.Interrupt == nil, c2.Interrupt == nil))
	vAssert("trace", vTraceSeqEq(bus1, bus2))
	probe := vU16("probe")
	vAssert("mem", bus1.Peek(probe) == bus2.Peek(probe))
}
