package z80

// C15 — the bundled memory and port types are plain byte stores with safe
// bounds.  One-step refinement of every method against a trivial model
// (address -> byte with a default); histories follow by induction.

// ---- DumbMemory -------------------------------------------------------------------

func vDumbModel(ref DumbMemory, n int, a uint16) uint8 {
	if vCase(int(a) < n) {
		return ref[a]
	}
	return 0
}

func VC15DumbMemGetSet() {
	n := vSymLen("len")
	vAssume(vAnd(n >= 0, n <= 65536))
	dm := DumbMemory(vBytesN("dm", n))
	ref := DumbMemory(vBytesN("dm", n)) // same initial contents, separate store
	a, b, v := vU16("a"), vU16("b"), vU8("v")
	vAssert("get", dm.Get(a) == vDumbModel(ref, n, a))
	dm.Set(a, v)
	want := vDumbModel(ref, n, b)
	if vCase(vAnd(b == a, int(a) < n)) {
		want = v
	}
	vAssert("set-then-get", dm.Get(b) == want)
	vAssert("len-unchanged", len(dm) == n)
}

// Put with k data bytes, block inside the slice
func VC15DumbMemPut(k int) {
	n := vSymLen("len")
	vAssume(vAnd(n >= 0, n <= 65536))
	dm := DumbMemory(vBytesN("dm", n))
	ref := DumbMemory(vBytesN("dm", n))
	addr := vU16("addr")
	vAssume(int(addr)+k <= n)
	d := vBytes("data", 8)
	var r DumbMemory
	switch k {
	case 0:
		r = dm.Put(addr)
	case 1:
		r = dm.Put(addr, d[0])
	case 2:
		r = dm.Put(addr, d[0], d[1])
	case 3:
		r = dm.Put(addr, d[0], d[1], d[2])
	case 4:
		r = dm.Put(addr, d[0], d[1], d[2], d[3])
	case 5:
		r = dm.Put(addr, d[0], d[1], d[2], d[3], d[4])
	case 6:
		r = dm.Put(addr, d[0], d[1], d[2], d[3], d[4], d[5])
	case 7:
		r = dm.Put(addr, d[0], d[1], d[2], d[3], d[4], d[5], d[6])
	default:
		r = dm.Put(addr, d[0], d[1], d[2], d[3], d[4], d[5], d[6], d[7])
	}
	_ = r // what Put returns is not part of the property
	b := vU16("b")
	want := vDumbModel(ref, n, b)
	for i := 0; i < k; i++ {
		if vCase(int(b) == int(addr)+i) {
			want = d[i]
		}
	}
	vAssert("put-then-get", dm.Get(b) == want)
	_ = r // what Put returns is not part of the property
}

// Put whose data is a window of the same memory (Put is variadic: dm[src:src+k]...
// passes the window itself): the bytes the window held at the call are stored,
// also when source and destination overlap.
func VC15DumbMemPutSelf(k int) {
	n := vSymLen("len")
	vAssume(vAnd(n >= 0, n <= 65536))
	dm := DumbMemory(vBytesN("dm", n))
	ref := DumbMemory(vBytesN("dm", n))
	src := vSymLen("src")
	vAssume(vAnd(vAnd(src >= 0, src <= 65536), src+k <= n))
	addr := vU16("addr")
	vAssume(int(addr)+k <= n)
	r := dm.Put(addr, dm[src:src+k]...)
	_ = r // what Put returns is not part of the property
	b := vU16("b")
	want := vDumbModel(ref, n, b)
	for i := 0; i < k; i++ {
		if vCase(int(b) == int(addr)+i) {
			want = ref[src+i]
		}
	}
	vAssert("put-self-then-get", dm.Get(b) == want)
}

// Put with a block of arbitrary length (0..65536 bytes, whatever fits)
func VC15DumbMemPutN() {
	n := vSymLen("len")
	vAssume(vAnd(n >= 0, n <= 65536))
	dm := DumbMemory(vBytesN("dm", n))
	ref := DumbMemory(vBytesN("dm", n))
	k := vSymLen("k")
	vAssume(vAnd(k >= 0, k <= 65536))
	addr := vU16("addr")
	vAssume(int(addr)+k <= n)
	data := vBytesN("data", k)
	r := dm.Put(addr, data...)
	_ = r // what Put returns is not part of the property
	b := vU16("b")
	want := vDumbModel(ref, n, b)
	if vCase(vAnd(int(b) >= int(addr), int(b) < int(addr)+k)) {
		want = data[int(b)-int(addr)]
	}
	vAssert("put-n-then-get", dm.Get(b) == want)
}

// ---- DumbIO -------------------------------------------------------------------------

func VC15DumbIO() {
	n := vSymLen("len")
	vAssume(vAnd(n >= 0, n <= 65536))
	dio := DumbIO(vBytesN("dio", n))
	ref := DumbIO(vBytesN("dio", n))
	a, b, v := vU8("a"), vU8("b"), vU8("v")
	var w uint8
	if vCase(int(a) < n) {
		w = ref[a]
	}
	vAssert("in", dio.In(a) == w)
	dio.Out(a, v)
	var want uint8
	if vCase(int(b) < n) {
		want = ref[b]
	}
	if vCase(vAnd(b == a, int(a) < n)) {
		want = v
	}
	vAssert("out-then-in", dio.In(b) == want)
}

// ---- MapMemory -----------------------------------------------------------------------

func vMapModel(ref map[uint16]uint8, a uint16) uint8 {
	v, ok := ref[a]
	return vIteU8(ok, v, 0xc7)
}

func VC15MapGetSet(n int) {
	mm := MapMemory(vMapU16U8("mm", n))
	ref := vMapU16U8("mm", n)
	a, b, v := vU16("a"), vU16("b"), vU8("v")
	vAssert("get", mm.Get(a) == vMapModel(ref, a))
	mm.Set(a, v)
	vAssert("set-then-get", mm.Get(b) == vIteU8(b == a, v, vMapModel(ref, b)))
}

func VC15MapPut(n, k int) {
	mm := MapMemory(vMapU16U8("mm", n))
	ref := vMapU16U8("mm", n)
	addr := vU16("addr")
	d := vBytes("data", 8)
	var r MapMemory
	switch k {
	case 0:
		r = mm.Put(addr)
	case 1:
		r = mm.Put(addr, d[0])
	case 2:
		r = mm.Put(addr, d[0], d[1])
	case 3:
		r = mm.Put(addr, d[0], d[1], d[2])
	case 4:
		r = mm.Put(addr, d[0], d[1], d[2], d[3])
	case 5:
		r = mm.Put(addr, d[0], d[1], d[2], d[3], d[4])
	case 6:
		r = mm.Put(addr, d[0], d[1], d[2], d[3], d[4], d[5])
	case 7:
		r = mm.Put(addr, d[0], d[1], d[2], d[3], d[4], d[5], d[6])
	default:
		r = mm.Put(addr, d[0], d[1], d[2], d[3], d[4], d[5], d[6], d[7])
	}
	b := vU16("b")
	want := vMapModel(ref, b)
	for i := 0; i < k; i++ {
		want = vIteU8(b == addr+uint16(i), d[i], want) // wraps past 0xffff
	}
	vAssert("put-then-get", mm.Get(b) == want)
	_ = r // what Put returns is not part of the property
}

func VC15MapClone(n int) {
	mm := MapMemory(vMapU16U8("mm", n))
	ref := vMapU16U8("mm", n)
	cl := mm.Clone()
	b := vU16("b")
	_, okc := cl[b]
	_, okr := ref[b]
	vAssert("clone-presence", okc == okr)
	vAssert("clone-content", cl.Get(b) == vMapModel(ref, b))
	vAssert("clone-equal", mm.Equal(cl))
	// independence, both ways
	a, v := vU16("a"), vU8("v")
	cl.Set(a, v)
	vAssert("original-untouched", mm.Get(b) == vMapModel(ref, b))
	a2, v2 := vU16("a2"), vU8("v2")
	mm.Set(a2, v2)
	vAssert("clone-untouched", cl.Get(b) == vIteU8(b == a, v, vMapModel(ref, b)))
}

func VC15MapClear(n int) {
	mm := MapMemory(vMapU16U8("mm", n))
	mm.Clear()
	b := vU16("b")
	_, ok := mm[b]
	vAssert("cleared", !ok)
	vAssert("empty", len(mm) == 0)
	vAssert("default", mm.Get(b) == 0xc7)
	vAssert("equal-empty", mm.Equal(MapMemory{}))
}

func vSameAt(x, y map[uint16]uint8, k uint16) bool {
	vx, okx := x[k]
	vy, oky := y[k]
	return vAnd(okx == oky, vOr(!okx, vx == vy))
}

func VC15MapEqual(n int) {
	m1 := MapMemory(vMapU16U8("m1", n))
	m2 := MapMemory(vMapU16U8("m2", n))
	eq := m1.Equal(m2)
	// sound: Equal => same contents at every address
	b := vU16("b")
	vAssert("equal-sound", vImplies(eq, vSameAt(m1, m2, b)))
	// complete: not Equal => some address differs; every present key is one of
	// the candidate keys the maps were built from
	same := true
	for i := 0; i < n; i++ {
		same = vAnd(same, vSameAt(m1, m2, vU16N("m1.k", i)))
		same = vAnd(same, vSameAt(m1, m2, vU16N("m2.k", i)))
	}
	vAssert("equal-complete", vImplies(same, eq))
	vAssert("equal-symmetric", eq == m2.Equal(m1))
	vAssert("equal-reflexive", m1.Equal(m1))
	// other types are never equal
	vAssert("equal-other-type", !m1.Equal(map[uint16]uint8(m1)))
	vAssert("equal-other-type2", !m1.Equal(DumbMemory(nil)))
	vAssert("equal-nil-arg", !m1.Equal(nil))
}
