package z80

// Validation of the reference model (the oracle of C01-C05, C09, C14): the
// model is executable Go, so the zexdoc / zexall exerciser cases are run ON
// THE MODEL natively and must produce the canonical CRCs.  Selected with
// VERIF_ORACLE=quick|thorough.

import (
	"os"
	"testing"

	"github.com/koron-go/z80/internal/zex"
)

// one instruction at s.PC executed by the model on bus (the model's own bus)
func vSpecRunOne(s *States, bus *vBus) bool {
	pc := s.PC
	b0 := bus.Peek(pc)
	tbl, op := 0, int(b0)
	switch b0 {
	case 0xcb:
		tbl, op = 1, int(bus.Peek(pc+1))
	case 0xed:
		tbl, op = 2, int(bus.Peek(pc+1))
	case 0xdd, 0xfd:
		b1 := bus.Peek(pc + 1)
		tbl = 3
		if b0 == 0xfd {
			tbl = 4
		}
		if b1 == 0xcb {
			tbl += 2
			op = int(bus.Peek(pc + 3))
		} else {
			op = int(b1)
		}
	}
	o := vSpecStep(*s, bus, tbl, op)
	*s = o.S
	bus.ResetTrace()
	return o.HaltSet
}

func vOracleSetStatus(s *States, bus *vBus, st zex.Status) {
	bus.Poke(0x1000, st.Inst0)
	bus.Poke(0x1001, st.Inst1)
	bus.Poke(0x1002, st.Inst2)
	bus.Poke(0x1003, st.Inst3)
	bus.Poke(0x1004, 0x00)
	s.IY, s.IX = st.IY, st.IX
	s.HL.SetU16(st.HL)
	s.DE.SetU16(st.DE)
	s.BC.SetU16(st.BC)
	s.AF.Lo, s.AF.Hi = st.Flags, st.Accum
	s.SP = st.SP
	s.PC = 0x1000
	for i, u8 := range st.Bytes()[4:] {
		bus.Poke(zex.Msbt+uint16(i), u8)
	}
	bus.Poke(zex.Msbt+16, 0x2a)
	bus.Poke(zex.Msbt+17, 0x06)
}

func vOracleIsHalt(bus *vBus) bool {
	switch bus.Peek(0x1000) {
	case 0x76:
		return true
	case 0xdd, 0xfd:
		return bus.Peek(0x1001) == 0x76
	}
	return false
}

func vOracleIter(s *States, bus *vBus, it zex.Iter, shift, count uint64, mask uint8, crc uint32) uint32 {
	before := it.Status(shift, count)
	vOracleSetStatus(s, bus, before)
	if vOracleIsHalt(bus) {
		return crc
	}
	for n := 0; s.PC != 0x1004; n++ {
		if n > 100000 {
			panic("model does not reach the breakpoint")
		}
		vSpecRunOne(s, bus)
	}
	var after zex.Status
	after.MemOP = uint16(bus.Peek(zex.Msbt)) | uint16(bus.Peek(zex.Msbt+1))<<8
	after.IY, after.IX = s.IY, s.IX
	after.HL, after.DE, after.BC = s.HL.U16(), s.DE.U16(), s.BC.U16()
	after.Flags, after.Accum, after.SP = s.AF.Lo&mask, s.AF.Hi, s.SP
	for _, b := range after.Bytes()[4:] {
		crc = zexUpdateCRC(crc, b)
	}
	return crc
}

func vOracleCase(t *testing.T, c zex.Case) {
	var s States
	bus := vNewBus("oracle")
	crc := uint32(0xffffffff)
	it := c.Iter()
	crc = vOracleIter(&s, bus, it, 0, 0, c.FlagMask, crc)
	shiftMax, countMax := c.Maxes()
	for j := uint64(1); j < countMax; j++ {
		crc = vOracleIter(&s, bus, it, 1, j, c.FlagMask, crc)
	}
	for i := uint64(2); i < shiftMax+2; i++ {
		for j := uint64(0); j < countMax; j++ {
			crc = vOracleIter(&s, bus, it, i, j, c.FlagMask, crc)
		}
	}
	if crc != uint32(c.Expect) {
		t.Errorf("MODEL fails %s: want=%08x got=%08x", c.Desc, uint32(c.Expect), crc)
	}
}

func TestVOracleZex(t *testing.T) {
	mode := os.Getenv("VERIF_ORACLE")
	if mode == "" {
		t.Skip("VERIF_ORACLE not set")
	}
	run := func(cases []zex.Case, every int) {
		for i, c0 := range cases {
			if i%every != 0 {
				continue
			}
			c := c0
			t.Run(c.Desc, func(t *testing.T) {
				t.Parallel()
				vOracleCase(t, c)
			})
		}
	}
	if mode == "quick" {
		run(zex.DocCases, 8)
		run(zex.AllCases, 8)
	} else {
		run(zex.DocCases, 1)
		run(zex.AllCases, 1)
	}
}
