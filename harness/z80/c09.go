package z80

// C09 — block instructions as a whole operation.  n Steps of a repeating
// block instruction with a concrete element count n, compared with a direct
// functional specification of the whole transfer / search.  (The one-element
// lemma from an arbitrary state is the VStep run of the 16 block encodings.)

// op: second byte after ED (B0 LDIR, B8 LDDR, B1 CPIR, B9 CPDR, B2 INIR, BA INDR, B3 OTIR, BB OTDR)
func VC09Run(op, n int) {
	var s States
	vHavoc(&s, "s")
	z := op & 3
	var step uint16 = 1
	if op&8 != 0 {
		step = 0xffff
	}
	if z <= 1 {
		s.BC.Hi, s.BC.Lo = uint8(n>>8), uint8(n)
	} else {
		s.BC.Hi = uint8(n)
	}
	bus := vNewBus("bus")
	vPlace(bus, s.PC, 2, op)
	sb := bus.Fork("spec")
	cpu := &CPU{States: s, Memory: bus, IO: bus}

	// ---- the implementation: Step until PC leaves the instruction (at most n Steps)
	steps := 0
	for i := 0; i < n; i++ {
		if i > 0 && vCase(cpu.PC != s.PC) {
			break
		}
		// the instruction may be overwritten by its own transfer; the claim is
		// for runs in which it is still there when re-fetched
		vAssume(vAnd(bus.Peek(s.PC) == 0xed, bus.Peek(s.PC+1) == uint8(op)))
		cpu.Step()
		steps++
	}

	// ---- the specification: the whole operation as a plain loop
	w := s
	hl := specW(s.HL.Hi, s.HL.Lo)
	de := specW(s.DE.Hi, s.DE.Lo)
	a := s.AF.Hi
	f := s.AF.Lo
	done := 0
	for i := 0; i < n; i++ {
		sb.Get(s.PC)
		sb.Get(s.PC + 1)
		done++
		switch z {
		case 0:
			v := sb.Get(hl)
			sb.Set(de, v)
			hl += step
			de += step
			k := a + v
			f = f&(sfS|sfZ|sfC) | specB(done != n, sfPV) | k&sf3 | specB(k&2 != 0, sf5)
		case 1:
			v := sb.Get(hl)
			hl += step
			t := a - v
			hb := a&15 < v&15
			k := t - specB(hb, 1)
			f = f&sfC | specSZ(t) | specB(hb, sfH) | specB(done != n, sfPV) | sfN | k&sf3 | specB(k&2 != 0, sf5)
			if vCase(t == 0) {
				i = n // found: the search stops here
			}
		case 2:
			v := sb.In(s.BC.Lo)
			sb.Set(hl, v)
			hl += step
			f = f&^(sfZ|sfN) | specB(done == n, sfZ) | sfN
		default:
			v := sb.Get(hl)
			sb.Out(s.BC.Lo, v)
			hl += step
			f = f&^(sfZ|sfN) | specB(done == n, sfZ) | sfN
		}
	}
	w.HL.Hi, w.HL.Lo = specHi(hl), specLo(hl)
	if z == 0 {
		w.DE.Hi, w.DE.Lo = specHi(de), specLo(de)
	}
	if z <= 1 {
		r := uint16(n - done)
		w.BC.Hi, w.BC.Lo = specHi(r), specLo(r)
	} else {
		w.BC.Hi = uint8(n - done)
	}
	w.AF.Lo = f
	w.PC = s.PC + 2
	w.IR.Lo = s.IR.Lo&0x80 | (s.IR.Lo+uint8(2*done))&0x7f
	fmask := uint8(0xff)
	if z >= 2 {
		fmask = sfZ | sfN
	}
	vAssert("elements", steps == done)
	got := cpu.States
	got.AF.Lo &= fmask
	w.AF.Lo &= fmask
	vAssert("state", got == w)
	vAssert("trace", vTraceSeqEq(bus, sb))
	probe := vU16("probe")
	vAssert("mem", bus.Peek(probe) == sb.Peek(probe))
}

// A block transfer on a flat 64K DumbMemory, then the caller attaches another
// DumbMemory and the transfer goes on (or another one starts): the second Step
// works on the memory attached now, like a fresh CPU with the same registers.
func VC09SwapDumb(op int) {
	var s States
	vHavoc(&s, "s")
	a := DumbMemory(vBytesN("dmA", 65536))
	a.Set(s.PC, 0xed)
	a.Set(s.PC+1, uint8(op))
	c1 := &CPU{States: s, Memory: a}
	c1.Step()
	mid := c1.States
	b1 := DumbMemory(vBytesN("dmB", 65536))
	b2 := DumbMemory(vBytesN("dmB", 65536))
	for _, m := range []DumbMemory{b1, b2} {
		m.Set(mid.PC, 0xed)
		m.Set(mid.PC+1, uint8(op))
	}
	c1.Memory = b1
	c2 := &CPU{States: mid, Memory: b2}
	c1.Step()
	c2.Step()
	vAssert("state", c1.States == c2.States)
	probe := vU16("probe")
	vAssert("mem", b1.Get(probe) == b2.Get(probe))
}
