package z80

// C12 — Step is total.  Every implicit or explicit panic site reached on any
// explored path is an obligation recorded by the engine ("nopanic"); these
// harnesses only have to drive Step through the configurations the property
// names.

// no I/O device attached
func VC12NilIO(tbl, op int) {
	var pre States
	vHavoc(&pre, "s")
	bus := vNewBus("bus")
	vPlace(bus, pre.PC, tbl, op)
	cpu := &CPU{States: pre, Memory: bus}
	cpu.Step()
	vAssert("returned", true)
	vAssert("no-port-access", bus.CountKind(2)+bus.CountKind(3) == 0)
}

// arbitrary request: any Type, any IM, any IFF1, len(Data) = n, PC anywhere.
// d0/d1 >= 0 pin the first data bytes (so that mode 0 does not enumerate the
// whole decode space through solver forks); -1 leaves them symbolic.
func VC12Req(n, d0, d1 int) {
	var pre States
	vHavoc(&pre, "s")
	bus := vNewBus("bus")
	// a refused or ignored request runs the program's instruction: pin a NOP
	bus.Poke(pre.PC, 0)
	data := vBytes("d", n)
	if n > 0 && d0 >= 0 {
		data[0] = uint8(d0)
	}
	if n > 1 && d1 >= 0 {
		data[1] = uint8(d1)
	}
	it := &Interrupt{Type: InterruptType(vInt("type")), Data: data}
	cpu := &CPU{States: pre, Memory: bus, IO: bus, Interrupt: it}
	cpu.Step()
	vAssert("returned", true)
	vAssert("memory-restored", cpu.Memory == Memory(bus))
}

// request at the very top of the address space with IO missing as well
func VC12ReqTop(n, d0 int) {
	var pre States
	vHavoc(&pre, "s")
	pre.PC = 0xffff
	bus := vNewBus("bus")
	bus.Poke(pre.PC, 0)
	data := vBytes("d", n)
	if n > 0 && d0 >= 0 {
		data[0] = uint8(d0)
	}
	it := &Interrupt{Type: InterruptType(vInt("type")), Data: data}
	cpu := &CPU{States: pre, Memory: bus, Interrupt: it}
	cpu.Step()
	vAssert("returned", true)
}

// short memories: a DumbMemory / DumbIO of arbitrary length (0..65536 / 0..65536)
// in which the encoding fits; data accesses may fall beyond the end.
func VC12Dumb(tbl, op int) {
	var pre States
	vHavoc(&pre, "s")
	n := vSymLen("memlen")
	vAssume(vAnd(n >= 0, n <= 65536))
	m := vSymLen("iolen")
	vAssume(vAnd(m >= 0, m <= 65536))
	mem := DumbMemory(vBytesN("dm", n))
	io := DumbIO(vBytesN("dio", m))
	vAssume(int(pre.PC)+4 <= n)
	vPlaceDumb(mem, pre.PC, tbl, op, 4)
	cpu := &CPU{States: pre, Memory: mem, IO: io}
	cpu.Step()
	vAssert("returned", true)
}

func vPlaceDumb(mem DumbMemory, pc uint16, tbl, op, k int) {
	var b [4]int
	b[0], b[1], b[2], b[3] = -1, -1, -1, -1
	switch tbl {
	case 0:
		b[0] = op
	case 1:
		b[0], b[1] = 0xcb, op
	case 2:
		b[0], b[1] = 0xed, op
	case 3:
		b[0], b[1] = 0xdd, op
	case 4:
		b[0], b[1] = 0xfd, op
	case 5:
		b[0], b[1], b[3] = 0xdd, 0xcb, op
	default:
		b[0], b[1], b[3] = 0xfd, 0xcb, op
	}
	for i := 0; i < k; i++ {
		if b[i] >= 0 {
			mem[pc+uint16(i)] = uint8(b[i])
		}
	}
}

// the memory ends k bytes after PC (k = 0..3): the instruction is cut off and
// the missing bytes read as 0.
func VC12DumbCut(tbl, op, k int) {
	var pre States
	vHavoc(&pre, "s")
	vAssume(pre.PC <= 0xfff0)
	n := int(pre.PC) + k
	mem := DumbMemory(vBytesN("dm", n))
	vPlaceDumb(mem, pre.PC, tbl, op, k)
	cpu := &CPU{States: pre, Memory: mem, IO: DumbIO(nil)}
	cpu.Step()
	vAssert("returned", true)
}

// MapMemory (initialised) with arbitrary sparse contents
func VC12Map(tbl, op int) {
	var pre States
	vHavoc(&pre, "s")
	mm := MapMemory(vMapU16U8("mm", 3))
	switch tbl {
	case 0:
		mm.Put(pre.PC, uint8(op))
	case 1:
		mm.Put(pre.PC, 0xcb, uint8(op))
	case 2:
		mm.Put(pre.PC, 0xed, uint8(op))
	case 3:
		mm.Put(pre.PC, 0xdd, uint8(op))
	case 4:
		mm.Put(pre.PC, 0xfd, uint8(op))
	case 5:
		mm.Put(pre.PC, 0xdd, 0xcb)
		mm.Put(pre.PC+3, uint8(op))
	default:
		mm.Put(pre.PC, 0xfd, 0xcb)
		mm.Put(pre.PC+3, uint8(op))
	}
	cpu := &CPU{States: pre, Memory: mm}
	cpu.Step()
	vAssert("returned", true)
}

// A history of unsupported encodings on one CPU: twelve distinct ones, then the
// first two again.  Whatever the emulator keeps about codes it has warned
// about, every Step returns normally and consumes the encoding.
func VC12Hist(tbl, o0, o1, o2, o3, o4, o5, o6, o7, o8, o9, o10, o11 int) {
	ops := [14]int{o0, o1, o2, o3, o4, o5, o6, o7, o8, o9, o10, o11, o0, o1}
	var s States
	vHavoc(&s, "s")
	bus := vNewBus("bus")
	cpu := &CPU{States: s, Memory: bus, IO: bus}
	for i := 0; i < 14; i++ {
		pc := cpu.PC
		vPlace(bus, pc, tbl, ops[i])
		cpu.Step()
		n := uint16(2)
		if tbl >= 5 {
			n = 4
		}
		vAssert("consumed", cpu.PC == pc+n)
	}
}
