package z80

import "context"

// C08 — Run is exactly repeated Step and stops only at a breakpoint or an
// executed HALT.  Run is executed symbolically with the *real* Step and is
// compared with a twin CPU driven by Step with the stop rule written out.

// vScript is a scripted program memory: every opcode fetch is answered with an
// arbitrary choice among a few instruction shapes (so the programs are all
// sequences of those shapes, with arbitrary operands); writes are logged.
type vScript struct {
	fetches int // instructions started
	pending int // operand bytes still to deliver
	gets    int
	nw      int
	wa      [16]uint16
	wv      [16]uint8
	bound   int
	sawHalt bool   // a HALT opcode has been delivered (and so executed) in this Run
	haltAt  uint16 // the address it was fetched from
	shapes  int    // instruction shapes offered: 1 HALT, 2 NOP, 4 JP nn, 8 LD BC,nn (INC A always); 0 = all
	cpu     *CPU   // when set, the device may raise an NMI while an instruction is fetched
}

func (m *vScript) Get(addr uint16) uint8 {
	m.gets++
	if m.pending > 0 {
		m.pending--
		return vU8N("operand", m.gets)
	}
	if m.fetches >= m.bound {
		vStop("script bound")
	}
	k := m.fetches
	m.fetches++
	// Run returns in the iteration in which a HALT was executed: no instruction is
	// fetched after one
	vAssert("returns-once-halted", !m.sawHalt)
	if m.cpu != nil && vCase(vBoolN("nmi", k)) {
		// raised while this instruction runs: honoured at the next boundary
		m.cpu.Interrupt = NMIInterrupt()
	}
	sh := m.shapes
	if sh == 0 {
		sh = 15
	}
	// instruction shapes: HALT | NOP | JP nn | LD BC,nn | INC A
	if sh&1 != 0 && vCase(vBoolN("halt", k)) {
		m.sawHalt, m.haltAt = true, addr
		return 0x76
	}
	if sh&2 != 0 && vCase(vBoolN("nop", k)) {
		return 0x00
	}
	if sh&4 != 0 && vCase(vBoolN("jp", k)) {
		m.pending = 2
		return 0xc3
	}
	if sh&8 != 0 && vCase(vBoolN("ld", k)) {
		m.pending = 2
		return 0x01
	}
	return 0x3c
}

func (m *vScript) Set(addr uint16, v uint8) {
	if m.nw < 16 {
		m.wa[m.nw], m.wv[m.nw] = addr, v
	}
	m.nw++
}

// the stop rule, written out: 0 = nil (halted), 1 = ErrBreakPoint
func vTwinRun(c *CPU, max int) (int, int) {
	c.HALT = false
	for i := 0; i < max; i++ {
		c.Step()
		if c.BreakPoints != nil {
			if _, ok := c.BreakPoints[c.PC]; vCase(ok) {
				return 1, i + 1
			}
		}
		if vCase(c.HALT) {
			return 0, i + 1
		}
	}
	vStop("twin bound")
	return -1, max
}

func vErrKind(err error) int {
	if err == nil {
		return 0
	}
	if err == ErrBreakPoint {
		return 1
	}
	return 2
}

// bp: 0 = BreakPoints nil, 1 = arbitrary set with <= 2 members; k = max Steps;
// ints: 1 = the device may raise an NMI during any instruction (fewer shapes)
func VC08Script(bp, k, ints int) {
	var s States
	vHavoc(&s, "s")
	stale := vBool("stalehalt")
	d1 := &vScript{bound: k}
	d2 := &vScript{bound: k}
	c1 := &CPU{States: s, Memory: d1, HALT: stale}
	c2 := &CPU{States: s, Memory: d2, HALT: stale}
	if ints == 1 {
		d1.cpu, d2.cpu = c1, c2
		d1.shapes, d2.shapes = 3, 3
		// a request may already be pending when Run is entered (with a stale HALT flag)
		if vCase(vBool("nmi-at-entry")) {
			c1.Interrupt = NMIInterrupt()
			c2.Interrupt = NMIInterrupt()
		}
	}
	if ints == 2 {
		// a maskable request is pending at entry; IM (any int) and IFF1 are arbitrary,
		// so it may be accepted, refused, or never consumable
		d1.shapes, d2.shapes = 3, 3
		c1.Interrupt = IM1Interrupt()
		c2.Interrupt = IM1Interrupt()
	}
	if bp == 1 {
		c1.BreakPoints = vMapU16Set("bp", 2)
		c2.BreakPoints = vMapU16Set("bp", 2)
	}
	err := c1.Run(context.Background())
	wk, wsteps := vTwinRun(c2, k)
	vAssert("result", vErrKind(err) == wk)
	// same number of instructions started (an acceptance Step fetches none)
	vAssert("steps", d1.fetches == d2.fetches)
	if ints == 0 {
		vAssert("steps-counted", d1.fetches == wsteps)
		vAssert("at-least-one-step", d1.fetches >= 1)
	}
	vAssert("state", c1.States == c2.States)
	vAssert("HALT", c1.HALT == c2.HALT)
	vAssert("pending", (c1.Interrupt == nil) == (c2.Interrupt == nil))
	vAssert("halted-means-nil", vImplies(vErrKind(err) == 0, c1.HALT))
	// independent of the twin: halted = PC still addresses the HALT opcode
	if vErrKind(err) == 0 && d1.sawHalt {
		vAssert("pc-on-the-halt", c1.PC == d1.haltAt)
	}
	vAssert("writes", d1.nw == d2.nw)
	if d1.nw == d2.nw {
		for i := 0; i < d1.nw && i < 16; i++ {
			vAssert("write-log", vAnd(d1.wa[i] == d2.wa[i], d1.wv[i] == d2.wv[i]))
		}
	}
}

// ---- concrete program skeletons on a real (address-consistent) bus ---------

type vIntDev struct {
	cpu  *CPU
	bus  *vBus
	kind int // 1 NMI, 2 INT (mode 1)
}

func (d *vIntDev) In(addr uint8) uint8 { return d.bus.In(addr) }
func (d *vIntDev) Out(addr uint8, v uint8) {
	d.bus.Out(addr, v)
	if d.kind == 1 {
		d.cpu.Interrupt = NMIInterrupt()
	} else {
		d.cpu.Interrupt = IM1Interrupt()
	}
}

func vPut(b *vBus, at uint16, bytes ...int) {
	for i, v := range bytes {
		b.Poke(at+uint16(i), uint8(v))
	}
}

// skeleton k; registers, flags, data and the rest of memory are symbolic
func VC08Prog(k int) {
	var s States
	vHavoc(&s, "s")
	stale := vBool("stalehalt")
	bus1 := vNewBus("bus")
	var bps map[uint16]struct{}
	again := false
	dev := 0
	max := 8
	switch k {
	case 0: // HALT first
		s.PC = 0x4000
		vPut(bus1, 0x4000, 0x76)
	case 1: // NOPs then HALT, no breakpoints
		s.PC = 0x4000
		vPut(bus1, 0x4000, 0x00, 0x00, 0x76)
	case 2: // breakpoint on the start PC only: not hit before the first Step, never again
		s.PC = 0x4000
		vPut(bus1, 0x4000, 0x00, 0x3c, 0x76)
		bps = map[uint16]struct{}{0x4000: {}}
	case 3: // breakpoint on the HALT address: the breakpoint wins, HALT not executed
		s.PC = 0x4000
		vPut(bus1, 0x4000, 0x00, 0x76)
		bps = map[uint16]struct{}{0x4001: {}}
	case 4: // breakpoint inside a multi-byte instruction is not a boundary
		s.PC = 0x4000
		vPut(bus1, 0x4000, 0x01, 0x34, 0x12, 0x76)
		bps = map[uint16]struct{}{0x4001: {}, 0x4002: {}}
	case 5: // breakpoint reached through PC wraparound
		s.PC = 0xfffe
		vPut(bus1, 0xfffe, 0x00, 0x00)
		vPut(bus1, 0x0000, 0x76)
		bps = map[uint16]struct{}{0x0000: {}}
	case 6: // second Run on an already halted CPU
		s.PC = 0x4000
		vPut(bus1, 0x4000, 0x00, 0x76)
		again = true
	case 7: // HALT reached by a jump onto a breakpointed HALT: breakpoint wins
		s.PC = 0x4000
		vPut(bus1, 0x4000, 0xc3, 0x00, 0x50)
		vPut(bus1, 0x5000, 0x76)
		bps = map[uint16]struct{}{0x5000: {}}
	case 8: // OUT (n),A whose device raises an NMI: honoured at the next boundary
		s.PC = 0x4000
		s.SP = 0x8000
		vPut(bus1, 0x4000, 0xd3, 0x10, 0x00, 0x76)
		vPut(bus1, 0x0066, 0x76)
		dev = 1
	case 9: // OUT (n),A whose device raises a maskable request (mode 1, enabled)
		s.PC = 0x4000
		s.SP = 0x8000
		s.IM = 1
		s.IFF1 = true
		vPut(bus1, 0x4000, 0xd3, 0x10, 0x00, 0x76)
		vPut(bus1, 0x0038, 0x76)
		dev = 2
	case 10: // same, interrupts disabled: request stays pending, program halts at 0x4003
		s.PC = 0x4000
		s.SP = 0x8000
		s.IM = 1
		s.IFF1 = false
		vPut(bus1, 0x4000, 0xd3, 0x10, 0x00, 0x76)
		dev = 2
	case 12: // OUT raises an NMI, breakpoint on the handler entry 0x0066: reported there
		s.PC = 0x4000
		s.SP = 0x8000
		vPut(bus1, 0x4000, 0xd3, 0x10, 0x00, 0x76)
		vPut(bus1, 0x0066, 0x00, 0x76)
		bps = map[uint16]struct{}{0x0066: {}}
		dev = 1
	case 13: // OUT raises a maskable request (mode 1), breakpoint on 0x0038
		s.PC = 0x4000
		s.SP = 0x8000
		s.IM = 1
		s.IFF1 = true
		vPut(bus1, 0x4000, 0xd3, 0x10, 0x00, 0x76)
		vPut(bus1, 0x0038, 0x00, 0x76)
		bps = map[uint16]struct{}{0x0038: {}}
		dev = 2
	case 14: // Run ends on HALT, an NMI is raised, Run again: the handler runs to its own HALT
		s.PC = 0x4000
		s.SP = 0x8000
		vPut(bus1, 0x4000, 0x76)
		vPut(bus1, 0x0066, 0x00, 0x76)
		again = true
		dev = 3
	default: // conditional loop: DJNZ with B = 2, then HALT; breakpoint after the loop
		s.PC = 0x4000
		s.BC.Hi = 2
		vPut(bus1, 0x4000, 0x10, 0xfe, 0x76)
		bps = map[uint16]struct{}{0x4002: {}}
	}
	bus2 := bus1.Fork("bus2")
	c1 := &CPU{States: s, Memory: bus1, IO: bus1, HALT: stale, BreakPoints: bps}
	c2 := &CPU{States: s, Memory: bus2, IO: bus2, HALT: stale, BreakPoints: bps}
	if dev == 1 || dev == 2 {
		c1.IO = &vIntDev{cpu: c1, bus: bus1, kind: dev}
		c2.IO = &vIntDev{cpu: c2, bus: bus2, kind: dev}
	}
	err := c1.Run(context.Background())
	wk, _ := vTwinRun(c2, max)
	vAssert("result", vErrKind(err) == wk)
	vAssert("state", c1.States == c2.States)
	vAssert("HALT", c1.HALT == c2.HALT)
	vAssert("pending", (c1.Interrupt == nil) == (c2.Interrupt == nil))
	vAssert("trace", vTraceSeqEq(bus1, bus2))
	probe := vU16("probe")
	vAssert("mem", bus1.Peek(probe) == bus2.Peek(probe))
	// documented end points of the skeletons (independent of the twin)
	switch k {
	case 0:
		vAssert("end", vAnd(vErrKind(err) == 0, vAnd(c1.HALT, c1.PC == 0x4000)))
	case 1:
		vAssert("end", vAnd(vErrKind(err) == 0, vAnd(c1.HALT, c1.PC == 0x4002)))
	case 2:
		vAssert("end", vAnd(vErrKind(err) == 0, vAnd(c1.HALT, c1.PC == 0x4002)))
	case 3:
		vAssert("end", vAnd(vErrKind(err) == 1, vAnd(!c1.HALT, c1.PC == 0x4001)))
	case 4:
		vAssert("end", vAnd(vErrKind(err) == 0, vAnd(c1.HALT, c1.PC == 0x4003)))
	case 5:
		vAssert("end", vAnd(vErrKind(err) == 1, vAnd(!c1.HALT, c1.PC == 0x0000)))
	case 7:
		vAssert("end", vAnd(vErrKind(err) == 1, vAnd(!c1.HALT, c1.PC == 0x5000)))
	case 8:
		vAssert("end", vAnd(vErrKind(err) == 0, vAnd(c1.HALT, vAnd(c1.PC == 0x0066, c1.SP == 0x7ffe))))
	case 9:
		vAssert("end", vAnd(vErrKind(err) == 0, vAnd(c1.HALT, vAnd(c1.PC == 0x0038, c1.SP == 0x7ffe))))
	case 10:
		vAssert("end", vAnd(vErrKind(err) == 0, vAnd(c1.HALT, vAnd(c1.PC == 0x4003, c1.Interrupt != nil))))
	case 11:
		vAssert("end", vAnd(vErrKind(err) == 1, vAnd(!c1.HALT, vAnd(c1.PC == 0x4002, c1.BC.Hi == 0))))
	case 12:
		vAssert("end", vAnd(vErrKind(err) == 1, vAnd(!c1.HALT, vAnd(c1.PC == 0x0066, c1.SP == 0x7ffe))))
	case 13:
		vAssert("end", vAnd(vErrKind(err) == 1, vAnd(!c1.HALT, vAnd(c1.PC == 0x0038, c1.SP == 0x7ffe))))
	}
	if again && dev == 3 {
		c1.Interrupt = NMIInterrupt()
		c2.Interrupt = NMIInterrupt()
		err2 := c1.Run(context.Background())
		wk2, _ := vTwinRun(c2, max)
		vAssert("again-nmi-result", vErrKind(err2) == wk2)
		vAssert("again-nmi-state", c1.States == c2.States)
		vAssert("again-nmi-end", vAnd(vErrKind(err2) == 0, vAnd(c1.HALT, vAnd(c1.PC == 0x0067, c1.SP == 0x7ffe))))
	} else if again {
		// Run again on the halted CPU: halts again at the same address, registers
		// and memory unchanged (the low seven bits of R advance with the fetch)
		before := c1.States
		ref := bus1.Fork("ref")
		err2 := c1.Run(context.Background())
		vAssert("again-result", vErrKind(err2) == 0)
		vAssert("again-halted", vAnd(c1.HALT, c1.PC == before.PC))
		vAssert("again-state", vEqModR(c1.States, before))
		vAssert("again-mem", bus1.Peek(probe) == ref.Peek(probe))
	}
}

// ---- any first instruction --------------------------------------------------

// vIdxMem answers the i-th read with the i-th byte of a stream, whatever the
// address: the leading bytes are the concrete encoding under test, the rest of
// the first Step's reads are arbitrary, and every read after the first Step
// (n1 reads) returns HALT, so that Run comes to an end by itself.
type vIdxMem struct {
	gets     int
	n1       int // number of reads of the first Step; < 0 while it is being measured
	pre      [4]int
	tail     int    // reads served after the first Step
	lastHalt uint16 // address of the last tail read (a HALT opcode)
	nw       int
	wa       [8]uint16
	wv       [8]uint8
}

func (m *vIdxMem) Get(addr uint16) uint8 {
	i := m.gets
	m.gets++
	if m.n1 >= 0 && i >= m.n1 {
		m.tail++
		if m.tail > 6 {
			vStop("tail bound")
		}
		m.lastHalt = addr
		return 0x76
	}
	if i < 4 && m.pre[i] >= 0 {
		return uint8(m.pre[i])
	}
	return vU8N("b", i)
}

func (m *vIdxMem) Set(addr uint16, v uint8) {
	if m.nw < 8 {
		m.wa[m.nw], m.wv[m.nw] = addr, v
	}
	m.nw++
}

type vIdxIO struct {
	ins, outs int
	oa, ov    [4]uint8
}

func (d *vIdxIO) In(addr uint8) uint8 {
	d.ins++
	return vU8N("in", d.ins)
}
func (d *vIdxIO) Out(addr uint8, v uint8) {
	if d.outs < 4 {
		d.oa[d.outs], d.ov[d.outs] = addr, v
	}
	d.outs++
}

func vEncBytes(tbl, op int) [4]int {
	switch tbl {
	case 0:
		return [4]int{op, -1, -1, -1}
	case 1:
		return [4]int{0xcb, op, -1, -1}
	case 2:
		return [4]int{0xed, op, -1, -1}
	case 3:
		return [4]int{0xdd, op, -1, -1}
	case 4:
		return [4]int{0xfd, op, -1, -1}
	case 5:
		return [4]int{0xdd, 0xcb, -1, op}
	}
	return [4]int{0xfd, 0xcb, -1, op}
}

// Run started on *any* encoding X (then HALTs): the first loop iteration of
// Run equals one Step of X plus the stop rule, for every X, start state, stale
// halted flag, breakpoint set and pending request.
// intr: 0 none, 1 NMI pending at entry, 2 maskable (mode 1 request; IM, IFF1 arbitrary)
func VC08Any(tbl, op, intr int) {
	var s States
	vHavoc(&s, "s")
	stale := vBool("stalehalt")
	pre := vEncBytes(tbl, op)
	d1 := &vIdxMem{n1: -1, pre: pre}
	d2 := &vIdxMem{n1: -1, pre: pre}
	io1, io2 := &vIdxIO{}, &vIdxIO{}
	c1 := &CPU{States: s, Memory: d1, IO: io1, HALT: stale}
	c2 := &CPU{States: s, Memory: d2, IO: io2, HALT: stale}
	switch intr {
	case 1:
		c1.Interrupt, c2.Interrupt = NMIInterrupt(), NMIInterrupt()
	case 2:
		c1.Interrupt, c2.Interrupt = IM1Interrupt(), IM1Interrupt()
	}
	bps := vMapU16Set("bp", 2)
	if vCase(vBool("bp-nil")) {
		bps = nil
	}
	c1.BreakPoints, c2.BreakPoints = bps, bps
	// the twin: Step with the stop rule written out; its first Step measures n1
	c2.HALT = false
	c2.Step()
	n1 := d2.gets
	d1.n1, d2.n1 = n1, n1
	wk, steps := -1, 1
	for {
		if c2.BreakPoints != nil {
			if _, ok := c2.BreakPoints[c2.PC]; vCase(ok) {
				wk = 1
				break
			}
		}
		if vCase(c2.HALT) {
			wk = 0
			break
		}
		if steps >= 5 {
			vStop("twin bound")
		}
		c2.Step()
		steps++
	}
	err := c1.Run(context.Background())
	vAssert("result", vErrKind(err) == wk)
	// independent of the twin: halted = PC still addresses the HALT opcode
	if vErrKind(err) == 0 {
		if d1.tail > 0 {
			vAssert("pc-on-the-halt", c1.PC == d1.lastHalt)
		} else if tbl == 0 && op == 0x76 && intr == 0 {
			vAssert("pc-on-the-halt", c1.PC == s.PC)
		}
	}
	vAssert("reads", d1.gets == d2.gets)
	vAssert("state", c1.States == c2.States)
	vAssert("HALT", c1.HALT == c2.HALT)
	vAssert("pending", (c1.Interrupt == nil) == (c2.Interrupt == nil))
	vAssert("writes", d1.nw == d2.nw)
	if d1.nw == d2.nw {
		for i := 0; i < d1.nw && i < 8; i++ {
			vAssert("write-log", vAnd(d1.wa[i] == d2.wa[i], d1.wv[i] == d2.wv[i]))
		}
	}
	vAssert("ports", vAnd(io1.ins == io2.ins, io1.outs == io2.outs))
	if io1.outs == io2.outs {
		for i := 0; i < io1.outs && i < 4; i++ {
			vAssert("port-log", vAnd(io1.oa[i] == io2.oa[i], io1.ov[i] == io2.ov[i]))
		}
	}
}

// ---- Run, change the breakpoints, Run again ------------------------------------

// The breakpoint set is consulted afresh by every Run: a first Run (set B1), then
// the set is replaced by B2 (mode 0: a new map; mode 1: the same map edited in
// place - one arbitrary address removed, one added), then a second Run.  Both
// Runs are compared with a Step-driven twin.  Programs: HALT / NOP / INC A.
func VC08Twice(mode, k int) {
	var s States
	vHavoc(&s, "s")
	d1 := &vScript{bound: k, shapes: 3}
	d2 := &vScript{bound: k, shapes: 3}
	c1 := &CPU{States: s, Memory: d1}
	c2 := &CPU{States: s, Memory: d2}
	c1.BreakPoints = vMapU16Set("bp", 2)
	c2.BreakPoints = vMapU16Set("bp", 2)
	err := c1.Run(context.Background())
	wk, _ := vTwinRun(c2, k)
	vAssert("first-result", vErrKind(err) == wk)
	vAssert("first-state", c1.States == c2.States)
	d1.sawHalt, d2.sawHalt = false, false
	if mode == 0 {
		c1.BreakPoints = vMapU16Set("bq", 2)
		c2.BreakPoints = vMapU16Set("bq", 2)
	} else {
		del, add := vU16("del"), vU16("add")
		delete(c1.BreakPoints, del)
		delete(c2.BreakPoints, del)
		c1.BreakPoints[add] = struct{}{}
		c2.BreakPoints[add] = struct{}{}
	}
	err = c1.Run(context.Background())
	wk, _ = vTwinRun(c2, k)
	vAssert("second-result", vErrKind(err) == wk)
	vAssert("second-steps", d1.fetches == d2.fetches)
	vAssert("second-state", c1.States == c2.States)
	vAssert("second-HALT", c1.HALT == c2.HALT)
}
