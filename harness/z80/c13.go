package z80

import (
	"context"
	"time"
)

// C13 — Run honours cancellation.  Sequential environment model: the watcher
// goroutine is run to completion at the moment the context is cancelled (any
// later schedule equals a later cancellation instant).  The cancellation
// instant is a parameter: before the call, or during the k-th instruction.

type vCancelDev struct {
	vScript
	at     int // cancel while instruction number `at` is being fetched
	cancel context.CancelFunc
}

func (m *vCancelDev) Get(addr uint16) uint8 {
	first := m.pending == 0
	k := m.fetches
	if first && k < m.bound {
		// once the cancellation is published no further instruction may start
		// (a context cancelled before the call may lose the race for the first one)
		if m.at < 0 {
			vAssert("no-step-after-cancel", k <= 0)
		} else {
			vAssert("no-step-after-cancel", k <= m.at)
		}
	}
	v := m.vScript.Get(addr)
	if first && k == m.at {
		m.cancel()
		vSettle()
	}
	return v
}

// at: -1 = cancelled before the call; 0..k-1 = cancelled during instruction `at`; k = max Steps
// bp: 0 = BreakPoints nil, 1 = arbitrary set with <= 2 members, 2 = nil but the
// context also carries a (far) deadline and is cancelled early
func VC13Script(at, k, bp int) {
	var s States
	vHavoc(&s, "s")
	var ctx context.Context
	var cancel context.CancelFunc
	if bp == 2 {
		ctx, cancel = context.WithTimeout(context.Background(), time.Hour)
	} else {
		ctx, cancel = context.WithCancel(context.Background())
	}
	d1 := &vCancelDev{at: at, cancel: cancel}
	d1.bound = k
	d2 := &vScript{bound: k}
	c1 := &CPU{States: s, Memory: d1}
	c2 := &CPU{States: s, Memory: d2}
	if bp == 1 {
		c1.BreakPoints = vMapU16Set("bp", 2)
		c2.BreakPoints = vMapU16Set("bp", 2)
	}
	if at < 0 {
		cancel()
	}
	err := c1.Run(ctx)
	n := d1.fetches
	// the program may have halted by itself before the cancellation was seen
	if vCase(vErrKind(err) == 0) {
		vAssert("halted-legitimately", c1.HALT)
	} else if vCase(vErrKind(err) == 1) {
		_, hit := c1.BreakPoints[c1.PC]
		vAssert("breakpoint-legitimately", hit)
	} else {
		vAssert("returns-ctx-error", vIsErrOf(err, ctx))
		// promptness: at most the instruction in flight completes
		vAssert("prompt", n <= at+1)
	}
	// whole number of Steps: the twin after exactly n Steps
	c2.HALT = false
	for i := 0; i < n; i++ {
		c2.Step()
	}
	vAssert("boundary-state", c1.States == c2.States)
	vAssert("boundary-writes", d1.nw == d2.nw)
	vAssert("no-goroutine-left", vCancelReleased())
	cancel()
}

