package z80

import (
	"context"
	"time"
)

// C13 — Run honours cancellation.  Sequential environment model: the watcher
// goroutine is run to completion at the moment the context is cancelled (any
// later schedule equals a later cancellation instant).  The cancellation
// instant is a parameter: before the call, or during the k-th instruction.

type vCancelDev struct {
	vScript
	at     int // cancel while instruction number `at` is being fetched
	cancel context.CancelFunc
}

func (m *vCancelDev) Get(addr uint16) uint8 {
	first := m.pending == 0
	k := m.fetches
	if first && k < m.bound {
		// "within a bounded delay": once the cancellation is published at most
		// vPromptSteps further instructions start (a Run that polls the flag every
		// few iterations is still prompt; one that never looks is not)
		if m.at < 0 {
			vAssert("no-step-long-after-cancel", k <= vPromptSteps)
		} else {
			vAssert("no-step-long-after-cancel", k <= m.at+vPromptSteps)
		}
	}
	v := m.vScript.Get(addr)
	if first && k == m.at {
		m.cancel()
		vSettle()
	}
	return v
}

// the delay the checks accept between the publication of a cancellation and
// Run's return, in started instructions (the property says "bounded", no number)
const vPromptSteps = 64

// at: -1 = cancelled before the call; 0..k-1 = cancelled during instruction `at`; k = max Steps
// bp: 0 = BreakPoints nil, 1 = arbitrary set with <= 2 members, 2 = nil but the
// context also carries a (far) deadline and is cancelled early
func VC13Script(at, k, bp int) {
	var s States
	vHavoc(&s, "s")
	var ctx context.Context
	var cancel context.CancelFunc
	if bp == 2 {
		ctx, cancel = context.WithTimeout(context.Background(), time.Hour)
	} else {
		ctx, cancel = context.WithCancel(context.Background())
	}
	d1 := &vCancelDev{at: at, cancel: cancel}
	d1.bound = k
	d2 := &vScript{bound: k}
	c1 := &CPU{States: s, Memory: d1}
	c2 := &CPU{States: s, Memory: d2}
	if bp == 1 {
		c1.BreakPoints = vMapU16Set("bp", 2)
		c2.BreakPoints = vMapU16Set("bp", 2)
	}
	if at < 0 {
		cancel()
	}
	err := c1.Run(ctx)
	n := d1.fetches
	// the program may have halted by itself before the cancellation was seen
	if vCase(vErrKind(err) == 0) {
		vAssert("halted-legitimately", c1.HALT)
	} else if vCase(vErrKind(err) == 1) {
		_, hit := c1.BreakPoints[c1.PC]
		vAssert("breakpoint-legitimately", hit)
	} else {
		vAssert("returns-ctx-error", vIsErrOf(err, ctx))
		// promptness: see vPromptSteps
		vAssert("prompt", n <= at+1+vPromptSteps)
	}
	// whole number of Steps: the twin after exactly n Steps
	c2.HALT = false
	for i := 0; i < n; i++ {
		c2.Step()
	}
	vAssert("boundary-state", c1.States == c2.States)
	vAssert("boundary-writes", d1.nw == d2.nw)
	vAssert("no-goroutine-left", vCancelReleased())
	cancel()
}

// ---- looping programs on an address-consistent bus -----------------------------
//
// "for every program (tight jump loops, block-instruction loops, I/O loops)":
// a program that never ends by itself is run, the context is cancelled at the
// at-th bus access, and Run must come back with the context's error within a
// bounded delay - counted in bus accesses: at most 8*(vPromptSteps+1), no
// instruction making more than 8 - at a Step boundary.

type vLoopDev struct {
	bus       *vBus
	n         int
	at        int
	cancel    context.CancelFunc
	cancelled bool
	after     int
}

func (d *vLoopDev) tick() {
	if d.cancelled {
		d.after++
		vAssert("prompt-accesses", d.after <= 8*(vPromptSteps+1))
		if d.after > 8*(vPromptSteps+1)+4 {
			vStop("still running long after the cancellation")
		}
	}
	if d.n == d.at {
		d.cancel()
		vSettle()
		d.cancelled = true
	}
	d.n++
}
func (d *vLoopDev) Get(a uint16) uint8    { d.tick(); return d.bus.Get(a) }
func (d *vLoopDev) Set(a uint16, v uint8) { d.tick(); d.bus.Set(a, v) }
func (d *vLoopDev) In(a uint8) uint8      { d.tick(); return d.bus.In(a) }
func (d *vLoopDev) Out(a uint8, v uint8)  { d.tick(); d.bus.Out(a, v) }

// kind: 0 JR -2 | 1 JP self | 2 DJNZ -2 | 3 LDIR | 4 LDDR | 5 CPIR (no match) |
// 6 OTIR | 7 INIR | 8 IN A,(n); JR -4 | 9 OUT (n),A; JP back | 10 memory full of DD |
// 11 memory full of FD | 12 DD FD DD FD ... | 13 NOPs
// mode: 0 BreakPoints nil, cancellable context | 1 BreakPoints an arbitrary set
// the program never reaches | 2 a context with a (far) deadline, cancelled early |
// 3 a maskable request pending and refused for the whole run (IFF1 clear, no EI) |
// 4 a breakpoint on the looping instruction itself (kinds 0, 1): Run stops there
// at once with ErrBreakPoint, or - cancelled first - with the context's error
func VC13Loop(kind, at, mode int) {
	var s States
	vHavoc(&s, "s")
	bus := vNewBus("bus")
	pc := s.PC
	span := uint16(at + vPromptSteps + 20)              // bytes/elements the run can reach before and after the cancellation
	notCode := func(a uint16) bool { return a-pc >= 4 } // a is outside pc..pc+3
	switch kind {
	case 0:
		vPut(bus, pc, 0x18, 0xfe)
	case 1:
		vPut(bus, pc, 0xc3)
		bus.Poke(pc+1, uint8(pc))
		bus.Poke(pc+2, uint8(pc>>8))
	case 2:
		vPut(bus, pc, 0x10, 0xfe)
		vAssume(s.BC.Hi > uint8(at+vPromptSteps+14))
	case 3, 4:
		vPut(bus, pc, 0xed, 0xb0+(kind-3)*8)
		vAssume(s.BC.U16() > span)
		for i := uint16(0); i < span; i++ {
			if kind == 3 {
				vAssume(notCode(s.DE.U16() + i))
			} else {
				vAssume(notCode(s.DE.U16() - i))
			}
		}
	case 5:
		vPut(bus, pc, 0xed, 0xb1)
		vAssume(s.BC.U16() > span)
		for i := uint16(0); i < span; i++ {
			vAssume(bus.Peek(s.HL.U16()+i) != s.AF.Hi)
		}
	case 6:
		vPut(bus, pc, 0xed, 0xb3)
		vAssume(s.BC.Hi > uint8(at+vPromptSteps+14))
	case 7:
		vPut(bus, pc, 0xed, 0xb2)
		vAssume(s.BC.Hi > uint8(at+vPromptSteps+14))
		for i := uint16(0); i < span; i++ {
			vAssume(notCode(s.HL.U16() + i))
		}
	case 8:
		vPut(bus, pc, 0xdb, int(vU8("port")), 0x18, 0xfc)
	case 9:
		vPut(bus, pc, 0xd3, int(vU8("port")), 0xc3)
		bus.Poke(pc+3, uint8(pc))
		bus.Poke(pc+4, uint8(pc>>8))
	case 10, 11, 12:
		for i := uint16(0); i < 2*span; i++ {
			b := 0xdd
			if kind == 11 || (kind == 12 && i&1 == 1) {
				b = 0xfd
			}
			bus.Poke(pc+i, uint8(b))
		}
	default:
		for i := uint16(0); i < 2*span; i++ {
			bus.Poke(pc+i, 0)
		}
	}
	twinBus := bus.Fork("twin")
	var ctx context.Context
	var cancel context.CancelFunc
	if mode == 2 {
		ctx, cancel = context.WithTimeout(context.Background(), time.Hour)
	} else {
		ctx, cancel = context.WithCancel(context.Background())
	}
	dev := &vLoopDev{bus: bus, at: at, cancel: cancel}
	c1 := &CPU{States: s, Memory: dev, IO: dev}
	c2 := &CPU{States: s, Memory: twinBus, IO: twinBus}
	if mode == 3 {
		vAssume(!s.IFF1)
		c1.IFF1, c2.IFF1 = false, false
		c1.Interrupt, c2.Interrupt = IM1Interrupt(), IM1Interrupt()
	}
	if mode == 4 {
		c1.BreakPoints = map[uint16]struct{}{pc: {}}
		c2.BreakPoints = map[uint16]struct{}{pc: {}}
	}
	if mode == 1 {
		// breakpoints somewhere the program does not go (all kinds stay within 2*span bytes of pc)
		k1, k2 := vU16("bpk1"), vU16("bpk2")
		vAssume(vAnd(k1-pc > 2*span, k2-pc > 2*span))
		c1.BreakPoints = map[uint16]struct{}{k1: {}, k2: {}}
		c2.BreakPoints = map[uint16]struct{}{k1: {}, k2: {}}
	}
	err := c1.Run(ctx)
	if mode == 4 && vErrKind(err) == 1 {
		vAssert("breakpoint-legitimately", c1.PC == pc)
	} else {
		vAssert("returns-ctx-error", vIsErrOf(err, ctx))
		vAssert("cancelled-before-return", dev.cancelled)
	}
	// a whole number of Steps: the twin is stepped until it has made as many accesses
	for i := 0; i < at+vPromptSteps+12 && twinBus.Len() < bus.Len(); i++ {
		c2.Step()
	}
	vAssert("boundary-accesses", twinBus.Len() == bus.Len())
	vAssert("boundary-state", c1.States == c2.States)
	vAssert("boundary-trace", vTraceSeqEq(bus, twinBus))
	vAssert("no-goroutine-left", vCancelReleased())
	cancel()
}

// ---- a second Run on the same CPU ------------------------------------------------
//
// Run(ctx1) ends by itself; the caller cancels ctx1 right after (its deferred
// cancel); Run(ctx2) on the same CPU under a live context must not be disturbed
// by anything the first Run left behind: it ends on its own HALT or breakpoint
// like a Step-driven twin.  lazy = 1 explores the schedule in which the
// goroutines woken by the first Run's return only run later (at the at-th
// instruction fetch of the second Run).

type vSettleDev struct {
	vScript
	at int
}

func (m *vSettleDev) Get(addr uint16) uint8 {
	first := m.pending == 0
	k := m.fetches
	v := m.vScript.Get(addr)
	if first && k == m.at {
		vSettle()
	}
	return v
}

func VC13Twice(lazy, at, k int) {
	var s States
	vHavoc(&s, "s")
	for it := 0; it < vStress(); it++ {
		vSchedLazy(lazy == 1)
		ctx1, cancel1 := context.WithCancel(context.Background())
		d0 := &vScript{bound: 2, shapes: 1}
		c1 := &CPU{States: s, Memory: d0}
		err := c1.Run(ctx1)
		vAssert("first-run-halts", vAnd(vErrKind(err) == 0, c1.HALT))
		cancel1()
		mid := c1.States
		ctx2, cancel2 := context.WithCancel(context.Background())
		d1 := &vSettleDev{at: at}
		d1.bound, d1.shapes = k, 3
		c1.Memory = d1
		err = c1.Run(ctx2)
		vAssert("second-run-undisturbed", vAnd(vErrKind(err) == 0, c1.HALT))
		d2 := &vScript{bound: k, shapes: 3}
		c2 := &CPU{States: mid, Memory: d2}
		vTwinRun(c2, k)
		vAssert("second-run-steps", d1.fetches == d2.fetches)
		vAssert("second-run-state", c1.States == c2.States)
		cancel2()
		vSchedLazy(false)
		vAssert("no-goroutine-left", vCancelReleased())
	}
}
