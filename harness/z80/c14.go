package z80

// C14, multi-Step forms named by the property: the refresh counter advances on
// every repetition of a block instruction and on every Step spent halted.

// k Steps parked on a HALT: R advances by k, I and bit 7 stay
func VC14Halted(k int) {
	var s States
	vHavoc(&s, "s")
	bus := vNewBus("bus")
	bus.Poke(s.PC, 0x76)
	cpu := &CPU{States: s, Memory: bus, IO: bus}
	for i := 0; i < k; i++ {
		cpu.Step()
	}
	vAssert("R", cpu.IR.Lo == s.IR.Lo&0x80|(s.IR.Lo+uint8(k))&0x7f)
	vAssert("I", cpu.IR.Hi == s.IR.Hi)
	vAssert("parked", vAnd(cpu.HALT, cpu.PC == s.PC))
}

// a repeating block instruction with n elements: two fetches per repetition
func VC14BlockRepeat(op, n int) {
	var s States
	vHavoc(&s, "s")
	if op&3 <= 1 {
		s.BC.Hi, s.BC.Lo = 0, uint8(n)
	} else {
		s.BC.Hi = uint8(n)
	}
	// compare (CPIR/CPDR): keep it from stopping early
	bus := vNewBus("bus")
	vPlace(bus, s.PC, 2, op)
	cpu := &CPU{States: s, Memory: bus, IO: bus}
	for i := 0; i < n; i++ {
		vAssume(vAnd(bus.Peek(s.PC) == 0xed, bus.Peek(s.PC+1) == uint8(op)))
		if i > 0 {
			vAssume(cpu.PC == s.PC)
		}
		cpu.Step()
	}
	vAssert("R", cpu.IR.Lo == s.IR.Lo&0x80|(s.IR.Lo+uint8(2*n))&0x7f)
	vAssert("I", cpu.IR.Hi == s.IR.Hi)
}
