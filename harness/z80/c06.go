package z80

// C06 — interrupt requests: accepted, refused, dispatched, retired.
// Oracle: a small abstract interrupt controller written out per case.

type vCounter struct{ retn, reti int }

func (c *vCounter) RETNHandle() { c.retn++ }
func (c *vCounter) RETIHandle() { c.reti++ }

// States equal except the low seven bits of R (C14 speaks of opcode fetches
// only; acceptance cycles are free to count or not).
func vEqModR(a, b States) bool {
	a.IR.Lo &= 0x80
	b.IR.Lo &= 0x80
	return a == b
}

func vAcceptCommon(cpu *CPU, halt bool, cnt *vCounter, bus, sb *vBus, want States) {
	vAssert("state", vEqModR(cpu.States, want))
	vAssert("consumed", cpu.Interrupt == nil)
	vAssert("HALT", vOr(cpu.HALT == halt, !cpu.HALT))
	vAssert("handlers", vAnd(cnt.retn == 0, cnt.reti == 0))
	vAssert("tracelen", bus.Len() == sb.Len())
	vAssert("trace", vTraceMultisetEq(bus, sb))
	probe := vU16("probe")
	vAssert("mem", bus.Peek(probe) == sb.Peek(probe))
}

// NMI: always accepted. n = len(Data) (ignored by an NMI).
func VC06NMI(n int) {
	var s States
	vHavoc(&s, "s")
	halt := vBool("halt")
	bus := vNewBus("bus")
	sb := bus.Fork("spec")
	cnt := &vCounter{}
	it := &Interrupt{Type: NMIType, Data: vBytes("d", n)}
	cpu := &CPU{States: s, Memory: bus, IO: bus, HALT: halt, Interrupt: it, RETNHandler: cnt, RETIHandler: cnt}
	cpu.Step()
	want := s
	specPush(&want, sb, s.PC)
	want.PC = 0x0066
	want.IFF2 = s.IFF1
	want.IFF1 = false
	vAcceptCommon(cpu, halt, cnt, bus, sb, want)
}

// Maskable request with IFF1 set, modes 1 and 2. n = len(Data).
func VC06INT(im, n int) {
	var s States
	vHavoc(&s, "s")
	s.IM = im
	s.IFF1 = true
	halt := vBool("halt")
	bus := vNewBus("bus")
	sb := bus.Fork("spec")
	cnt := &vCounter{}
	it := &Interrupt{Type: IMType, Data: vBytes("d", n)}
	d0 := vBytes("d", n)
	cpu := &CPU{States: s, Memory: bus, IO: bus, HALT: halt, Interrupt: it, RETNHandler: cnt, RETIHandler: cnt}
	cpu.Step()
	want := s
	want.IFF1, want.IFF2 = false, false
	specPush(&want, sb, s.PC)
	if im == 1 {
		want.PC = 0x0038
	} else {
		want.PC = specRead16(sb, specW(s.IR.Hi, d0[0]&0xfe))
	}
	vAcceptCommon(cpu, halt, cnt, bus, sb, want)
	// the request object belongs to the device that raised it (and may raise it
	// again): accepting it does not rewrite the bytes it supplied
	vAssert("request-data-intact", len(it.Data) == n)
	for i := 0; i < n && i < len(it.Data); i++ {
		vAssert("request-data-intact", it.Data[i] == d0[i])
	}
}

// Two acceptances in a row on the same CPU object, the second on a fresh
// memory: after a request of kind k1 was accepted (the handler has not
// returned), the host attaches another memory (bank switch), re-enables
// interrupts and a request of kind k2 arrives.  It is accepted like the first
// one - an NMI always, a maskable one because IFF1 is set - and all its
// accesses go to the memory attached now.  kinds: 0 NMI, 1 mode 1, 2 mode 0 + RST 38h
func VC06AcceptTwice(k1, k2 int) {
	var s States
	vHavoc(&s, "s")
	s.IFF1 = true
	busA := vNewBus("bus")
	cnt := &vCounter{}
	cpu := &CPU{States: s, Memory: busA, IO: busA, RETNHandler: cnt, RETIHandler: cnt}
	raise := func(k int) {
		switch k {
		case 0:
			cpu.Interrupt = NMIInterrupt()
		case 1:
			cpu.IM = 1
			cpu.Interrupt = IM1Interrupt()
		default:
			cpu.IM = 0
			cpu.Interrupt = IM0Interrupt(0xff)
		}
	}
	raise(k1)
	cpu.Step()
	vAssert("first-consumed", cpu.Interrupt == nil)
	busB := vNewBus("busB")
	sb := busB.Fork("specB")
	cpu.Memory, cpu.IO = busB, busB
	cpu.IFF1 = true
	raise(k2)
	mid := cpu.States
	busA.ResetTrace()
	cpu.Step()
	want := mid
	want.SP = mid.SP - 2
	want.IFF1 = false
	if k2 == 0 {
		want.PC, want.IFF2 = 0x0066, mid.IFF1
	} else {
		want.PC, want.IFF2 = 0x0038, false
	}
	vAssert("second-consumed", cpu.Interrupt == nil)
	vAssert("second-state", vEqModR(cpu.States, want))
	vAssert("old-memory-untouched", busA.Len() == 0)
	vAssert("two-stack-writes", vAnd(busB.Len() == 2, vAnd(busB.Kind(0) == 1, busB.Kind(1) == 1)))
	if k2 != 2 {
		// (which return address mode 0 pushes is C07's subject)
		specPush(&mid, sb, mid.PC)
		probe := vU16("probe")
		vAssert("second-mem", busB.Peek(probe) == sb.Peek(probe))
	}
	vAssert("handlers", vAnd(cnt.retn == 0, cnt.reti == 0))
}

// Mode 0 with RST p supplied.  Which return address is pushed is C07's
// subject: here only that exactly two stack bytes are written.
func VC06IM0RST(p int) {
	var s States
	vHavoc(&s, "s")
	s.IM = 0
	s.IFF1 = true
	halt := vBool("halt")
	bus := vNewBus("bus")
	ref := bus.Fork("ref")
	cnt := &vCounter{}
	it := IM0Interrupt(uint8(0xc7 | p<<3))
	cpu := &CPU{States: s, Memory: bus, IO: bus, HALT: halt, Interrupt: it, RETNHandler: cnt, RETIHandler: cnt}
	cpu.Step()
	want := s
	want.IFF1, want.IFF2 = false, false
	want.SP = s.SP - 2
	want.PC = uint16(p * 8)
	vIM0Common(cpu, halt, cnt, bus, ref, s, want)
	vAssert("request-data-intact", vAnd(len(it.Data) == 1, it.Data[0] == uint8(0xc7|p<<3)))
}

// Mode 0 with CALL nn supplied.  region: 0 = PC <= 0xFFFD, 1 = PC = 0xFFFE, 2 = PC = 0xFFFF
func VC06IM0CALL(region int) {
	var s States
	vHavoc(&s, "s")
	s.IM = 0
	s.IFF1 = true
	halt := vBool("halt")
	bus := vNewBus("bus")
	switch region {
	case 0:
		vAssume(s.PC <= 0xfffd)
	case 1:
		s.PC = 0xfffe
	default:
		s.PC = 0xffff
	}
	if region != 0 {
		// whatever the program holds at PC must not matter; pin NOPs so that a
		// wrongly executed program instruction is at least a single known one
		bus.Poke(s.PC, 0)
		bus.Poke(s.PC+1, 0)
		bus.Poke(s.PC+2, 0)
	}
	ref := bus.Fork("ref")
	cnt := &vCounter{}
	lo, hi := vU8("nnlo"), vU8("nnhi")
	it := IM0Interrupt(0xcd, lo, hi)
	cpu := &CPU{States: s, Memory: bus, IO: bus, HALT: halt, Interrupt: it, RETNHandler: cnt, RETIHandler: cnt}
	cpu.Step()
	want := s
	want.IFF1, want.IFF2 = false, false
	want.SP = s.SP - 2
	want.PC = specW(hi, lo)
	vIM0Common(cpu, halt, cnt, bus, ref, s, want)
}

func vIM0Common(cpu *CPU, halt bool, cnt *vCounter, bus, ref *vBus, s, want States) {
	vAssert("state", vEqModR(cpu.States, want))
	vAssert("consumed", cpu.Interrupt == nil)
	vAssert("HALT", vOr(cpu.HALT == halt, !cpu.HALT))
	vAssert("handlers", vAnd(cnt.retn == 0, cnt.reti == 0))
	vAssert("memory-restored", cpu.Memory == Memory(bus))
	// exactly the two stack writes, no program fetch, no port access
	vAssert("tracelen", bus.Len() == 2)
	if bus.Len() == 2 {
		vAssert("trace", vAnd(vAnd(bus.Kind(0) == 1, bus.Kind(1) == 1),
			vOr(vAnd(bus.Addr(0) == s.SP-1, bus.Addr(1) == s.SP-2), vAnd(bus.Addr(0) == s.SP-2, bus.Addr(1) == s.SP-1))))
	}
	probe := vU16("probe")
	vAssume(vAnd(probe != s.SP-1, probe != s.SP-2))
	vAssert("mem", bus.Peek(probe) == ref.Peek(probe))
}

// A refused maskable request changes nothing and stays pending; the Step is
// the plain Step of the instruction at PC (compared with the reference model).
func VC06Refused(tbl, op, n int) {
	var pre States
	vHavoc(&pre, "s")
	pre.IFF1 = false
	halt := vBool("halt")
	bus := vNewBus("bus")
	vPlace(bus, pre.PC, tbl, op)
	sb := bus.Fork("spec")
	it := &Interrupt{Type: IMType, Data: vBytes("d", n)}
	d0 := vBytes("d", n)
	cpu := &CPU{States: pre, Memory: bus, IO: bus, HALT: halt, Interrupt: it}
	cpu.Step()
	o := vSpecStep(pre, sb, tbl, op)
	pending := cpu.Interrupt
	cpu.Interrupt = nil
	vCompareStep(cpu, halt, bus, sb, &o)
	vAssert("pending", pending == it)
	vAssert("pending-type", it.Type == IMType)
	vAssert("pending-len", len(it.Data) == n)
	if len(it.Data) == n {
		for i := 0; i < n; i++ {
			vAssert("pending-data", it.Data[i] == d0[i])
		}
	}
}

// RETN/RETI notify their handler exactly once, nothing else ever does.
func VC06Handler(tbl, op int) {
	var pre States
	vHavoc(&pre, "s")
	bus := vNewBus("bus")
	vPlace(bus, pre.PC, tbl, op)
	cnt := &vCounter{}
	cpu := &CPU{States: pre, Memory: bus, IO: bus, RETNHandler: cnt, RETIHandler: cnt}
	cpu.Step()
	wn, wi := 0, 0
	if tbl == 2 && op == 0x45 {
		wn = 1
	}
	if tbl == 2 && op == 0x4d {
		wi = 1
	}
	vAssert("retn-count", cnt.retn == wn)
	vAssert("reti-count", cnt.reti == wi)
}

// Scenario: request raised while disabled -> EI -> accepted at the next
// boundary or one instruction later (mode 1).
func VC06ScenarioEI() {
	var s States
	vHavoc(&s, "s")
	s.IM = 1
	s.IFF1 = false
	bus := vNewBus("bus")
	vAssume(s.PC <= 0xfff0)
	// the handler address must not collide with the program bytes
	vAssume(vOr(s.PC > 0x0040, s.PC < 0x0030))
	bus.Poke(s.PC, 0xfb)   // EI
	bus.Poke(s.PC+1, 0x00) // NOP
	it := IM1Interrupt()
	cpu := &CPU{States: s, Memory: bus, IO: bus, Interrupt: it}
	cpu.Step() // refused, EI executes
	vAssert("ei-executed", vAnd(cpu.IFF1, cpu.PC == s.PC+1))
	vAssert("still-pending", cpu.Interrupt == it)
	// the stack must not overwrite the two program bytes
	vAssume(vAnd(s.SP-1 != s.PC+1, s.SP-2 != s.PC+1))
	cpu.Step() // accepted here (or the NOP runs first, as on silicon)
	delayed := cpu.Interrupt != nil
	if delayed {
		cpu.Step()
	}
	ret := s.PC + 1
	if delayed {
		ret = s.PC + 2
	}
	vAssert("accepted", cpu.Interrupt == nil)
	vAssert("dispatch", vAnd(cpu.PC == 0x0038, cpu.SP == s.SP-2))
	vAssert("disabled", vAnd(!cpu.IFF1, !cpu.IFF2))
	vAssert("return-address", vAnd(bus.Peek(s.SP-2) == uint8(ret), bus.Peek(s.SP-1) == uint8(ret>>8)))
}

// Scenario: INT accepted -> NMI inside the handler -> RETN must leave IFF1 = 0.
func VC06ScenarioNested() {
	var s States
	vHavoc(&s, "s")
	s.IM = 1
	s.IFF1 = true
	s.IFF2 = true
	bus := vNewBus("bus")
	cnt := &vCounter{}
	cpu := &CPU{States: s, Memory: bus, IO: bus, Interrupt: IM1Interrupt(), RETNHandler: cnt, RETIHandler: cnt}
	cpu.Step() // INT accepted
	vAssert("int-accepted", vAnd(cpu.Interrupt == nil, cpu.PC == 0x0038))
	cpu.Interrupt = NMIInterrupt()
	cpu.Step() // NMI accepted inside the handler
	vAssert("nmi-accepted", vAnd(cpu.Interrupt == nil, cpu.PC == 0x0066))
	vAssume(vAnd(bus.Peek(0x0066) == 0xed, bus.Peek(0x0067) == 0x45))
	cpu.Step() // RETN
	vAssert("retn-returns", vAnd(cpu.PC == 0x0038, cpu.SP == s.SP-2))
	vAssert("still-disabled", !cpu.IFF1)
	vAssert("retn-notified-once", vAnd(cnt.retn == 1, cnt.reti == 0))
}

// Histories of depth 2: any instruction, then a request raised at the
// boundary after it.  kind: 0 NMI, 1 maskable (mode 1).
// An NMI is accepted at that boundary, always.  A maskable request is accepted
// iff IFF1 is set there — at that boundary or, if the instruction was the
// enabling EI, possibly one instruction later; otherwise it stays pending.
// pre = 1: a maskable request was already pending, refused (IFF1 clear), while
// that instruction ran; at the boundary the device replaces it by the new one
// (an NMI overrides a waiting maskable request).
func VC06After(tbl, op, kind, pre int) {
	var s States
	vHavoc(&s, "s")
	if kind == 1 {
		s.IM = 1
	}
	bus := vNewBus("bus")
	vPlace(bus, s.PC, tbl, op)
	cnt := &vCounter{}
	cpu := &CPU{States: s, Memory: bus, IO: bus, RETNHandler: cnt, RETIHandler: cnt}
	if pre == 1 {
		vAssume(!s.IFF1)
		cpu.Interrupt = IM1Interrupt()
	}
	cpu.Step()
	if pre == 1 {
		vAssert("refused-stays-pending", cpu.Interrupt != nil)
	}
	s1 := cpu.States
	if kind == 1 {
		vAssume(s1.IM == 1) // the instruction itself may have been IM 0 / IM 2
	}
	var it *Interrupt
	if kind == 0 {
		it = NMIInterrupt()
	} else {
		it = IM1Interrupt()
	}
	cpu.Interrupt = it
	// whatever the program holds next: a NOP (executed only if the request is refused / delayed)
	bus.Poke(s1.PC, 0)
	bus.Poke(s1.PC+1, 0)
	sb := bus.Fork("spec")
	bus.ResetTrace()
	isEI := tbl == 0 && op == 0xfb
	cpu.Step()
	want := s1
	if kind == 0 {
		specPush(&want, sb, s1.PC)
		want.PC, want.IFF2, want.IFF1 = 0x0066, s1.IFF1, false
		vAssert("nmi-accepted", cpu.Interrupt == nil)
		vAssert("nmi-state", vEqModR(cpu.States, want))
		vAssert("nmi-trace", vTraceMultisetEq(bus, sb))
		return
	}
	if vCase(s1.IFF1) {
		if isEI && cpu.Interrupt != nil {
			// silicon: one instruction of delay after EI; the NOP ran
			vAssert("delayed-nop", vAnd(cpu.PC == s1.PC+1, cpu.IFF1))
			want.PC = s1.PC + 1
			sb.Get(s1.PC)
			bus.ResetTrace()
			sb.ResetTrace()
			cpu.Step()
		}
		specPush(&want, sb, want.PC)
		want.PC, want.IFF1, want.IFF2 = 0x0038, false, false
		vAssert("int-accepted", cpu.Interrupt == nil)
		vAssert("int-state", vEqModR(cpu.States, want))
		vAssert("int-trace", vTraceMultisetEq(bus, sb))
	} else {
		vAssert("int-refused-pending", cpu.Interrupt == it)
		want.PC = s1.PC + 1
		vAssert("int-refused-nop-ran", vEqModR(cpu.States, want))
	}
}

// The request constructors hand the CPU exactly the bytes they were given and
// leave the caller's buffer as it was (a device typically keeps its operand
// buffer, with spare capacity, for the next request).
func VC06Ctor() {
	a, lo, hi := vU8("a"), vU8("lo"), vU8("hi")
	buf := make([]uint8, 2, 8) // spare capacity, as a reused device buffer has
	buf[0], buf[1] = lo, hi
	it := IM0Interrupt(a, buf...)
	vAssert("im0-type", it.Type == IMType)
	vAssert("im0-len", len(it.Data) == 3)
	if len(it.Data) == 3 {
		vAssert("im0-data", vAnd(it.Data[0] == a, vAnd(it.Data[1] == lo, it.Data[2] == hi)))
	}
	// building a request must not disturb the caller's operand buffer (whether
	// Data may alias it afterwards is not something the property speaks about)
	vAssert("caller-buffer-intact", vAnd(buf[0] == lo, buf[1] == hi))
	one := IM0Interrupt(a)
	vAssert("im0-single", vAnd(one.Type == IMType, vAnd(len(one.Data) == 1, one.Data[0] == a)))
	v := vU8("v")
	i2 := IM2Interrupt(v)
	vAssert("im2", vAnd(i2.Type == IMType, vAnd(len(i2.Data) == 1, i2.Data[0] == v)))
	vAssert("im1", IM1Interrupt().Type == IMType)
	vAssert("nmi", NMIInterrupt().Type == NMIType)
}
