package z80

// Translator validation harness: one Step of encoding (tbl, op) with every
// input a named variable and every output observed.  The same function runs
// natively (inputs from a vector) and through the encoder (terms evaluated
// under the same vector); the observations must be identical.

func vB(b bool) uint64 {
	return uint64(vIteInt(b, 1, 0))
}

func vObserveStates(prefix string, s *States) {
	vObserve(prefix+"AF", uint64(s.AF.Hi)<<8|uint64(s.AF.Lo))
	vObserve(prefix+"BC", uint64(s.BC.Hi)<<8|uint64(s.BC.Lo))
	vObserve(prefix+"DE", uint64(s.DE.Hi)<<8|uint64(s.DE.Lo))
	vObserve(prefix+"HL", uint64(s.HL.Hi)<<8|uint64(s.HL.Lo))
	vObserve(prefix+"AF'", uint64(s.Alternate.AF.Hi)<<8|uint64(s.Alternate.AF.Lo))
	vObserve(prefix+"BC'", uint64(s.Alternate.BC.Hi)<<8|uint64(s.Alternate.BC.Lo))
	vObserve(prefix+"DE'", uint64(s.Alternate.DE.Hi)<<8|uint64(s.Alternate.DE.Lo))
	vObserve(prefix+"HL'", uint64(s.Alternate.HL.Hi)<<8|uint64(s.Alternate.HL.Lo))
	vObserve(prefix+"IX", uint64(s.IX))
	vObserve(prefix+"IY", uint64(s.IY))
	vObserve(prefix+"SP", uint64(s.SP))
	vObserve(prefix+"PC", uint64(s.PC))
	vObserve(prefix+"IR", uint64(s.IR.Hi)<<8|uint64(s.IR.Lo))
	vObserve(prefix+"IFF1", vB(s.IFF1))
	vObserve(prefix+"IFF2", vB(s.IFF2))
	vObserve(prefix+"IM", uint64(s.IM))
}

func vObserveTrace(prefix string, b *vBus) {
	vObserve(prefix+"tracelen", uint64(b.Len()))
	for i := 0; i < b.Len() && i < 8; i++ {
		vObserve(prefix+"ev"+vDigit(i), uint64(b.Kind(i))<<24|uint64(b.Addr(i))<<8|uint64(b.Val(i)))
	}
}

func vDigit(i int) string {
	switch i {
	case 0:
		return "0"
	case 1:
		return "1"
	case 2:
		return "2"
	case 3:
		return "3"
	case 4:
		return "4"
	case 5:
		return "5"
	case 6:
		return "6"
	}
	return "7"
}

func VTV(tbl, op int) {
	var pre States
	vHavoc(&pre, "s")
	halt := vBool("halt")
	bus := vNewBus("bus")
	vPlace(bus, pre.PC, tbl, op)
	sb := bus.Fork("spec")
	cpu := &CPU{States: pre, Memory: bus, IO: bus, HALT: halt}
	cpu.Step()
	vObserveStates("impl.", &cpu.States)
	vObserve("impl.HALT", vB(cpu.HALT))
	vObserveTrace("impl.", bus)
	o := vSpecStep(pre, sb, tbl, op)
	vObserveStates("spec.", &o.S)
	vObserve("spec.fmask", uint64(o.FMask))
	vObserve("spec.impl", vB(o.Impl))
	vObserveTrace("spec.", sb)
	p0, p1 := vU16("tvprobe0"), vU16("tvprobe1")
	vObserve("impl.mem0", uint64(bus.Peek(p0)))
	vObserve("impl.mem1", uint64(bus.Peek(p1)))
	vObserve("spec.mem0", uint64(sb.Peek(p0)))
}
