package z80

// C03, oracle-free cross-checks between the 16-bit operations themselves.

// ADC HL,ss with carry clear agrees with ADD HL,ss on the sum, H, N, C and bits 5/3
func VC03AdcAdd(p int) {
	var s States
	vHavoc(&s, "s")
	s.AF.Lo &^= 0x01
	b1 := vNewBus("bus")
	b1.Poke(s.PC, uint8(0x09+p*16))
	b2 := vNewBus("bus2")
	b2.Poke(s.PC, 0xed)
	b2.Poke(s.PC+1, uint8(0x4a+p*16))
	c1 := &CPU{States: s, Memory: b1, IO: b1}
	c2 := &CPU{States: s, Memory: b2, IO: b2}
	c1.Step()
	c2.Step()
	vAssert("sum", c1.HL == c2.HL)
	vAssert("H-N-C-53", (c1.AF.Lo^c2.AF.Lo)&0x3b == 0)
	vAssert("add-keeps-S-Z-PV", (c1.AF.Lo^s.AF.Lo)&0xc4 == 0)
}

// SBC HL,ss then ADC HL,ss with the carry it produced restores HL
func VC03SbcAdcInverse(p int) {
	var s States
	vHavoc(&s, "s")
	bus := vNewBus("bus")
	bus.Poke(s.PC, 0xed)
	bus.Poke(s.PC+1, uint8(0x42+p*16))
	bus.Poke(s.PC+2, 0xed)
	bus.Poke(s.PC+3, uint8(0x4a+p*16))
	cpu := &CPU{States: s, Memory: bus, IO: bus}
	cin := s.AF.Lo & 1
	cpu.Step()
	// give ADC the same carry-in the SBC consumed
	cpu.AF.Lo = cpu.AF.Lo&^1 | cin
	if p == 2 {
		// ss = HL itself: HL - HL - c = -c, then (-c) + (-c) + c = -c : not an inverse pair
		return
	}
	cpu.Step()
	vAssert("inverse", cpu.HL == s.HL)
}

// INC ss / DEC ss are +1 / -1 modulo 65536 on the pair and inverse to each other
func VC03IncDec(p, ix int) {
	var s States
	vHavoc(&s, "s")
	bus := vNewBus("bus")
	at := s.PC
	if ix != 0 {
		bus.Poke(at, uint8(0xdd+0x20*(ix-1)))
		at++
	}
	bus.Poke(at, uint8(0x03+p*16))
	at++
	if ix != 0 {
		bus.Poke(at, uint8(0xdd+0x20*(ix-1)))
		at++
	}
	bus.Poke(at, uint8(0x0b+p*16))
	cpu := &CPU{States: s, Memory: bus, IO: bus}
	before := specGetRP(&s, p, ix)
	cpu.Step()
	vAssert("plus-one", specGetRP(&cpu.States, p, ix) == before+1)
	vAssert("flags-untouched", cpu.AF == s.AF)
	cpu.Step()
	want := s
	want.PC = cpu.PC
	want.IR.Lo = cpu.IR.Lo
	vAssert("dec-inverts-inc", cpu.States == want)
}
