package z80

// C05 with no I/O device attached (a supported configuration): the port
// accesses vanish, the memory accesses of the instruction stay exactly the
// same — same reads, same write addresses.

func vCountEq(xs []uint16, n int, v uint16) int {
	c := 0
	for i := 0; i < n; i++ {
		c += vIteInt(xs[i] == v, 1, 0)
	}
	return c
}

// multiset equality of two short lists of addresses
func vAddrMultisetEq(a []uint16, na int, b []uint16, nb int) bool {
	if na != nb {
		return false
	}
	ok := true
	for i := 0; i < na; i++ {
		ok = vAnd(ok, vCountEq(a, na, a[i]) == vCountEq(b, nb, a[i]))
	}
	return ok
}

func VC05NilIO(tbl, op int) {
	var pre States
	vHavoc(&pre, "s")
	bus := vNewBus("bus")
	vPlace(bus, pre.PC, tbl, op)
	sb := bus.Fork("spec")
	cpu := &CPU{States: pre, Memory: bus} // IO == nil
	cpu.Step()
	vSpecStep(pre, sb, tbl, op)
	var ir, iw, sr, sw [16]uint16
	nir, niw, nsr, nsw := 0, 0, 0, 0
	for i := 0; i < bus.Len(); i++ {
		switch bus.Kind(i) {
		case 0:
			ir[nir] = bus.Addr(i)
			nir++
		case 1:
			iw[niw] = bus.Addr(i)
			niw++
		}
	}
	for i := 0; i < sb.Len(); i++ {
		switch sb.Kind(i) {
		case 0:
			sr[nsr] = sb.Addr(i)
			nsr++
		case 1:
			sw[nsw] = sb.Addr(i)
			nsw++
		}
	}
	vAssert("no-port-access", bus.CountKind(2)+bus.CountKind(3) == 0)
	vAssert("same-reads", vAddrMultisetEq(ir[:], nir, sr[:], nsr))
	vAssert("same-write-addresses", vAddrMultisetEq(iw[:], niw, sw[:], nsw))
}
