package z80

// C11 — FD-prefixed instructions do to IY exactly what DD-prefixed ones do to IX.
// 2-safety, no oracle: run the DD form from S and the FD form from swap(S).

func vSwapXY(s States) States {
	s.IX, s.IY = s.IY, s.IX
	return s
}

// tbl: 3 = DD/FD second byte, 5 = DDCB/FDCB fourth byte
func VC11(tbl, op int) {
	var s States
	vHavoc(&s, "s")
	halt := vBool("halt")
	busD := vNewBus("bus")
	vPlace(busD, s.PC, tbl, op)
	busF := busD.Fork("busF")
	busF.Poke(s.PC, 0xfd)
	cd := &CPU{States: s, Memory: busD, IO: busD, HALT: halt}
	cf := &CPU{States: vSwapXY(s), Memory: busF, IO: busF, HALT: halt}
	cd.Step()
	cf.Step()
	// The two programs differ in exactly one byte, the prefix at PC.  A data
	// access to that address legitimately sees different values, so it is
	// excluded (DESIGN.md C11).
	for i := 1; i < busD.Len(); i++ {
		if busD.Kind(i) < 2 {
			vAssume(busD.Addr(i) != s.PC)
		}
	}
	vAssert("state", vSwapXY(cd.States) == cf.States)
	vAssert("HALT", cd.HALT == cf.HALT)
	vAssert("tracelen", busD.Len() == busF.Len())
	if busD.Len() == busF.Len() && busD.Len() > 0 {
		vAssert("trace0", vAnd(busD.Kind(0) == 0, vAnd(busF.Kind(0) == 0, busD.Addr(0) == busF.Addr(0))))
		vAssert("trace", vTraceSeqEqFrom(busD, busF, 1))
	}
	probe := vU16("probe")
	vAssume(probe != s.PC)
	vAssert("mem", busD.Peek(probe) == busF.Peek(probe))
}

// Independence: the DD form neither reads nor writes IY (the FD half follows
// from the symmetry above).  Two DD runs that differ only in IY.
func VC11Indep(tbl, op int) {
	var s States
	vHavoc(&s, "s")
	halt := vBool("halt")
	bus1 := vNewBus("bus")
	vPlace(bus1, s.PC, tbl, op)
	bus2 := bus1.Fork("bus2")
	s2 := s
	s2.IY = vU16("iy2")
	c1 := &CPU{States: s, Memory: bus1, IO: bus1, HALT: halt}
	c2 := &CPU{States: s2, Memory: bus2, IO: bus2, HALT: halt}
	c1.Step()
	c2.Step()
	vAssert("iy-unchanged", vAnd(c1.IY == s.IY, c2.IY == s2.IY))
	r1, r2 := c1.States, c2.States
	r1.IY, r2.IY = 0, 0
	vAssert("iy-unread-state", r1 == r2)
	vAssert("iy-unread-halt", c1.HALT == c2.HALT)
	vAssert("iy-unread-trace", vTraceSeqEq(bus1, bus2))
	probe := vU16("probe")
	vAssert("iy-unread-mem", bus1.Peek(probe) == bus2.Peek(probe))
}
