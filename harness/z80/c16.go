package z80

// C16 — flag and register accessors touch exactly the named bits.

func VC16Flags() {
	var g GPR
	vHavoc(&g, "g")
	f := Flag(vU8("f"))
	pre := g
	vAssert("GetFlag", g.GetFlag(f) == (pre.AF.Lo&uint8(f) != 0))
	vAssert("GetFlag-pure", g == pre)
	s := pre
	s.SetFlag(f)
	want := pre
	want.AF.Lo = pre.AF.Lo | uint8(f)
	vAssert("SetFlag", s == want)
	r := pre
	r.ResetFlag(f)
	want = pre
	want.AF.Lo = pre.AF.Lo &^ uint8(f)
	vAssert("ResetFlag", r == want)
}

func VC16Consts() {
	vAssert("FlagC", FlagC == 0x01)
	vAssert("FlagN", FlagN == 0x02)
	vAssert("FlagPV", FlagPV == 0x04)
	vAssert("Flag3", Flag3 == 0x08)
	vAssert("FlagH", FlagH == 0x10)
	vAssert("Flag5", Flag5 == 0x20)
	vAssert("FlagZ", FlagZ == 0x40)
	vAssert("FlagS", FlagS == 0x80)
	// each single-bit constant selects exactly that bit of F
	var g GPR
	vHavoc(&g, "g")
	vAssert("GetFlagC", g.GetFlag(FlagC) == (g.AF.Lo&0x01 != 0))
	vAssert("GetFlagN", g.GetFlag(FlagN) == (g.AF.Lo&0x02 != 0))
	vAssert("GetFlagPV", g.GetFlag(FlagPV) == (g.AF.Lo&0x04 != 0))
	vAssert("GetFlag3", g.GetFlag(Flag3) == (g.AF.Lo&0x08 != 0))
	vAssert("GetFlagH", g.GetFlag(FlagH) == (g.AF.Lo&0x10 != 0))
	vAssert("GetFlag5", g.GetFlag(Flag5) == (g.AF.Lo&0x20 != 0))
	vAssert("GetFlagZ", g.GetFlag(FlagZ) == (g.AF.Lo&0x40 != 0))
	vAssert("GetFlagS", g.GetFlag(FlagS) == (g.AF.Lo&0x80 != 0))
}

func VC16Reg() {
	var r Register
	vHavoc(&r, "r")
	v := vU16("v")
	vAssert("U16", r.U16() == uint16(r.Hi)<<8|uint16(r.Lo))
	r.SetU16(v)
	vAssert("roundtrip", r.U16() == v)
	vAssert("Hi", r.Hi == uint8(v>>8))
	vAssert("Lo", r.Lo == uint8(v&0xff))
}
