package z80

// C16 — flag and register accessors touch exactly the named bits.
// The expected values are stated bit by bit (not with the byte-wide
// expressions the implementation uses), so the obligations reach the solver.

func vBit(v uint8, i int) bool { return v&(1<<uint(i)) != 0 }

func VC16Flags() {
	var g GPR
	vHavoc(&g, "g")
	f := Flag(vU8("f"))
	pre := g
	anyBit := false
	for i := 0; i < 8; i++ {
		anyBit = vOr(anyBit, vAnd(vBit(uint8(f), i), vBit(pre.AF.Lo, i)))
	}
	vAssert("GetFlag", g.GetFlag(f) == anyBit)
	vAssert("GetFlag-pure", g == pre)
	s := pre
	s.SetFlag(f)
	r := pre
	r.ResetFlag(f)
	for i := 0; i < 8; i++ {
		vAssert("SetFlag-bit", vBit(s.AF.Lo, i) == vOr(vBit(pre.AF.Lo, i), vBit(uint8(f), i)))
		vAssert("ResetFlag-bit", vBit(r.AF.Lo, i) == vAnd(vBit(pre.AF.Lo, i), !vBit(uint8(f), i)))
	}
	// nothing but F changes
	s.AF.Lo, r.AF.Lo = pre.AF.Lo, pre.AF.Lo
	vAssert("SetFlag-rest", s == pre)
	vAssert("ResetFlag-rest", r == pre)
}

func VC16Consts() {
	vAssert("FlagC", FlagC == 0x01)
	vAssert("FlagN", FlagN == 0x02)
	vAssert("FlagPV", FlagPV == 0x04)
	vAssert("Flag3", Flag3 == 0x08)
	vAssert("FlagH", FlagH == 0x10)
	vAssert("Flag5", Flag5 == 0x20)
	vAssert("FlagZ", FlagZ == 0x40)
	vAssert("FlagS", FlagS == 0x80)
	// each constant selects exactly its bit of F
	var g GPR
	vHavoc(&g, "g")
	vAssert("GetFlagC", g.GetFlag(FlagC) == vBit(g.AF.Lo, 0))
	vAssert("GetFlagN", g.GetFlag(FlagN) == vBit(g.AF.Lo, 1))
	vAssert("GetFlagPV", g.GetFlag(FlagPV) == vBit(g.AF.Lo, 2))
	vAssert("GetFlag3", g.GetFlag(Flag3) == vBit(g.AF.Lo, 3))
	vAssert("GetFlagH", g.GetFlag(FlagH) == vBit(g.AF.Lo, 4))
	vAssert("GetFlag5", g.GetFlag(Flag5) == vBit(g.AF.Lo, 5))
	vAssert("GetFlagZ", g.GetFlag(FlagZ) == vBit(g.AF.Lo, 6))
	vAssert("GetFlagS", g.GetFlag(FlagS) == vBit(g.AF.Lo, 7))
}

func VC16Reg() {
	var r Register
	vHavoc(&r, "r")
	v := vU16("v")
	vAssert("U16", uint32(r.U16()) == uint32(r.Hi)*256+uint32(r.Lo))
	r.SetU16(v)
	vAssert("roundtrip", r.U16() == v)
	vAssert("Hi", uint32(r.Hi) == uint32(v)/256)
	vAssert("Lo", uint32(r.Lo) == uint32(v)%256)
}
