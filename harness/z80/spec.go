package z80

// Reference model of one Z80 instruction (DESIGN.md §4, Appendix A).
//
// Written from the Zilog manual and "The Undocumented Z80 Documented";
// decode by bit fields, one routine per instruction class, flags from
// arithmetic definitions.  Fork-free: every data-dependent choice goes through
// vIte*/vAnd/vOr; ordinary if/switch is used only on the concrete decode
// parameters (tbl, op).  It calls nothing in package z80 outside the harness
// files.

const (
	sfC  = 0x01
	sfN  = 0x02
	sfPV = 0x04
	sf3  = 0x08
	sfH  = 0x10
	sf5  = 0x20
	sfZ  = 0x40
	sfS  = 0x80
)

type vSpecOut struct {
	S     States // expected post-state
	Impl  bool   // encoding belongs to the implemented set
	FMask uint8  // F bits that are compared
	// accept sets
	RAlt      uint8 // alternative accepted R (DDCB/FDCB: two fetches)
	RAltOK    bool
	IFF1Alt   bool // RETI: silicon copies IFF2
	IFF1AltOK bool
	HaltSet   bool // instruction is HALT: halted indication must be true
	Kind      int  // instruction class tag (skXXX) for the property filters
}

const (
	skOther = iota
	skALU8
	skRot
	skBit
	skArith16
	skIncDec16
	skJump
	skCall
	skRet
	skStack
	skBlock
	skIO
	skLoad
	skCtl
	skIR
	skInvalid
)

// ---- register file access by index (concrete index) ------------------------

func specHi(v uint16) uint8 { return uint8(v >> 8) }
func specLo(v uint16) uint8 { return uint8(v) }
func specW(h, l uint8) uint16 {
	return uint16(h)<<8 | uint16(l)
}

// r[] = B C D E H L (HL) A ; ix: 0 = HL, 1 = IX, 2 = IY (H/L become IXH/IXL…)
func specGetR(s *States, i, ix int) uint8 {
	switch i {
	case 0:
		return s.BC.Hi
	case 1:
		return s.BC.Lo
	case 2:
		return s.DE.Hi
	case 3:
		return s.DE.Lo
	case 4:
		if ix == 1 {
			return specHi(s.IX)
		} else if ix == 2 {
			return specHi(s.IY)
		}
		return s.HL.Hi
	case 5:
		if ix == 1 {
			return specLo(s.IX)
		} else if ix == 2 {
			return specLo(s.IY)
		}
		return s.HL.Lo
	case 7:
		return s.AF.Hi
	}
	panic("specGetR")
}

func specSetR(s *States, i, ix int, v uint8) {
	switch i {
	case 0:
		s.BC.Hi = v
	case 1:
		s.BC.Lo = v
	case 2:
		s.DE.Hi = v
	case 3:
		s.DE.Lo = v
	case 4:
		if ix == 1 {
			s.IX = specW(v, specLo(s.IX))
		} else if ix == 2 {
			s.IY = specW(v, specLo(s.IY))
		} else {
			s.HL.Hi = v
		}
	case 5:
		if ix == 1 {
			s.IX = specW(specHi(s.IX), v)
		} else if ix == 2 {
			s.IY = specW(specHi(s.IY), v)
		} else {
			s.HL.Lo = v
		}
	case 7:
		s.AF.Hi = v
	default:
		panic("specSetR")
	}
}

func specHLx(s *States, ix int) uint16 {
	if ix == 1 {
		return s.IX
	} else if ix == 2 {
		return s.IY
	}
	return specW(s.HL.Hi, s.HL.Lo)
}

func specSetHLx(s *States, ix int, v uint16) {
	if ix == 1 {
		s.IX = v
	} else if ix == 2 {
		s.IY = v
	} else {
		s.HL.Hi, s.HL.Lo = specHi(v), specLo(v)
	}
}

// rp[] = BC DE HL SP
func specGetRP(s *States, p, ix int) uint16 {
	switch p {
	case 0:
		return specW(s.BC.Hi, s.BC.Lo)
	case 1:
		return specW(s.DE.Hi, s.DE.Lo)
	case 2:
		return specHLx(s, ix)
	}
	return s.SP
}

func specSetRP(s *States, p, ix int, v uint16) {
	switch p {
	case 0:
		s.BC.Hi, s.BC.Lo = specHi(v), specLo(v)
	case 1:
		s.DE.Hi, s.DE.Lo = specHi(v), specLo(v)
	case 2:
		specSetHLx(s, ix, v)
	default:
		s.SP = v
	}
}

// ---- flag arithmetic -----------------------------------------------------------

func specB(c bool, m uint8) uint8 { return vIteU8(c, m, 0) }

func specParity(v uint8) uint8 {
	p := v ^ v>>4
	p ^= p >> 2
	p ^= p >> 1
	return specB(p&1 == 0, sfPV)
}

func specSZ(v uint8) uint8   { return v&sfS | specB(v == 0, sfZ) }
func specSZ53(v uint8) uint8 { return v&(sfS|sf5|sf3) | specB(v == 0, sfZ) }

// add with carry-in c (0/1): result and full flag byte
func specAdd8(a, b, c uint8) (uint8, uint8) {
	sum := uint16(a) + uint16(b) + uint16(c)
	r := uint8(sum)
	h := (a&15)+(b&15)+c > 15
	ss := int16(int8(a)) + int16(int8(b)) + int16(c)
	v := vOr(ss > 127, ss < -128)
	return r, specSZ53(r) | specB(h, sfH) | specB(v, sfPV) | specB(sum > 255, sfC)
}

func specSub8(a, b, c uint8) (uint8, uint8) {
	diff := int16(a) - int16(b) - int16(c)
	r := uint8(diff)
	h := int16(a&15)-int16(b&15)-int16(c) < 0
	ss := int16(int8(a)) - int16(int8(b)) - int16(c)
	v := vOr(ss > 127, ss < -128)
	return r, specSZ53(r) | specB(h, sfH) | specB(v, sfPV) | sfN | specB(diff < 0, sfC)
}

// alu[y] A,v : returns new A and new F
func specALU(y int, a, v, f uint8) (uint8, uint8) {
	switch y {
	case 0:
		return specAdd8(a, v, 0)
	case 1:
		return specAdd8(a, v, f&sfC)
	case 2:
		return specSub8(a, v, 0)
	case 3:
		return specSub8(a, v, f&sfC)
	case 4:
		r := a & v
		return r, specSZ53(r) | sfH | specParity(r)
	case 5:
		r := a ^ v
		return r, specSZ53(r) | specParity(r)
	case 6:
		r := a | v
		return r, specSZ53(r) | specParity(r)
	}
	// CP: flags of SUB but bits 5/3 from the operand, A kept
	_, fl := specSub8(a, v, 0)
	return a, fl&^(sf5|sf3) | v&(sf5|sf3)
}

func specInc8(v, f uint8) (uint8, uint8) {
	r := v + 1
	return r, f&sfC | specSZ53(r) | specB(v&15 == 15, sfH) | specB(v == 0x7f, sfPV)
}

func specDec8(v, f uint8) (uint8, uint8) {
	r := v - 1
	return r, f&sfC | specSZ53(r) | specB(v&15 == 0, sfH) | specB(v == 0x80, sfPV) | sfN
}

// rot[y] v : RLC RRC RL RR SLA SRA SLL SRL
func specRot(y int, v, f uint8) (uint8, uint8) {
	var r, c uint8
	cin := f & sfC
	switch y {
	case 0:
		c = v >> 7
		r = v<<1 | c
	case 1:
		c = v & 1
		r = v>>1 | c<<7
	case 2:
		c = v >> 7
		r = v<<1 | cin
	case 3:
		c = v & 1
		r = v>>1 | cin<<7
	case 4:
		c = v >> 7
		r = v << 1
	case 5:
		c = v & 1
		r = v>>1 | v&0x80
	case 6:
		c = v >> 7
		r = v<<1 | 1
	default:
		c = v & 1
		r = v >> 1
	}
	return r, specSZ53(r) | specParity(r) | c
}

func specCond(y int, f uint8) bool {
	switch y {
	case 0:
		return f&sfZ == 0
	case 1:
		return f&sfZ != 0
	case 2:
		return f&sfC == 0
	case 3:
		return f&sfC != 0
	case 4:
		return f&sfPV == 0
	case 5:
		return f&sfPV != 0
	case 6:
		return f&sfS == 0
	}
	return f&sfS != 0
}

func specRel(pc uint16, d uint8) uint16 { return pc + uint16(int16(int8(d))) }

// ---- bus helpers ---------------------------------------------------------------

func specRead16(sb *vBus, a uint16) uint16 {
	l := sb.Get(a)
	h := sb.Get(a + 1)
	return specW(h, l)
}

func specPush(s *States, sb *vBus, v uint16) {
	sb.Set(s.SP-1, specHi(v))
	sb.Set(s.SP-2, specLo(v))
	s.SP -= 2
}

func specPop(s *States, sb *vBus) uint16 {
	l := sb.Get(s.SP)
	h := sb.Get(s.SP + 1)
	s.SP += 2
	return specW(h, l)
}

func specFetch(s *States, sb *vBus) uint8 {
	v := sb.Get(s.PC)
	s.PC++
	return v
}

func specFetch16(s *States, sb *vBus) uint16 {
	l := specFetch(s, sb)
	h := specFetch(s, sb)
	return specW(h, l)
}

// ---- implemented set ------------------------------------------------------------

func specImplDD(op int) bool {
	switch op {
	case 0x09, 0x19, 0x29, 0x39, 0x21, 0x22, 0x23, 0x24, 0x25, 0x26, 0x2a, 0x2b, 0x2c, 0x2d, 0x2e,
		0x34, 0x35, 0x36, 0xe1, 0xe3, 0xe5, 0xe9, 0xf9:
		return true
	}
	if op >= 0x40 && op <= 0xbf && op != 0x76 {
		return true
	}
	return false
}

func specImplED(op int) bool {
	x, y, z := op>>6, (op>>3)&7, op&7
	if x == 1 {
		switch z {
		case 0, 1:
			return y != 6
		case 2, 3:
			return true
		case 4:
			return op == 0x44
		case 5:
			return op == 0x45 || op == 0x4d
		case 6:
			return op == 0x46 || op == 0x56 || op == 0x5e
		case 7:
			return y <= 5
		}
	}
	if x == 2 {
		return y >= 4 && z <= 3
	}
	return false
}

// ---- the step ---------------------------------------------------------------------

// vSpecStep: expected effect of the instruction whose encoding (tbl, op) sits
// at pre.PC.  sb is the model's own bus (fork of the implementation's initial
// bus): its trace is the expected access trace, its memory the expected memory.
func vSpecStep(pre States, sb *vBus, tbl, op int) vSpecOut {
	o, _ := vSpecStepMode(pre, sb, tbl, op, false)
	return o
}

// vSpecSiliconDefined: does the model define what Z80 silicon does for this
// encoding outside the emulator's implemented set?  (Used so that a maintainer
// who ADDS a correct instruction raises no alarm: outside the set either
// "consumed, no effect" or the silicon behaviour is accepted.)
func vSpecSiliconDefined(tbl, op int) bool {
	switch tbl {
	case 2:
		if specImplED(op) {
			return false
		}
		x, z := op>>6, op&7
		// NEG / RETN / IM mirrors, IN F,(C), OUT (C),0; every other hole is a 2-byte NOP (= consumed)
		return x == 1 && (z == 4 || z == 5 || z == 6 || op == 0x70 || op == 0x71)
	case 3, 4:
		if specImplDD(op) {
			return false
		}
		// prefix bytes and the prefixed HALT are left alone
		return op != 0xdd && op != 0xfd && op != 0xed && op != 0xcb && op != 0x76
	case 5, 6:
		return op&7 != 6
	}
	return false
}

// vSpecStepMode: silicon = true gives, for encodings outside the implemented
// set, the behaviour of the silicon (second result false if not defined).
func vSpecStepMode(pre States, sb *vBus, tbl, op int, silicon bool) (vSpecOut, bool) {
	var o vSpecOut
	o.FMask = 0xff
	s := pre
	nf := uint8(1)
	var d uint8
	switch tbl {
	case 0:
		specFetch(&s, sb)
	case 1, 2, 3, 4:
		specFetch(&s, sb)
		specFetch(&s, sb)
		nf = 2
	default:
		specFetch(&s, sb)
		specFetch(&s, sb)
		d = specFetch(&s, sb)
		specFetch(&s, sb)
		nf = 2
		o.RAltOK = true
		o.RAlt = pre.IR.Lo&0x80 | (pre.IR.Lo+3)&0x7f
	}
	s.IR.Lo = pre.IR.Lo&0x80 | (pre.IR.Lo+nf)&0x7f
	switch tbl {
	case 0:
		o.Impl = true
		specMain(&s, &o, sb, pre, op, 0)
	case 1:
		o.Impl = true
		specCB(&s, &o, sb, op)
	case 2:
		o.Impl = specImplED(op)
		if o.Impl {
			specED(&s, &o, sb, pre, op)
		}
	case 3, 4:
		o.Impl = specImplDD(op)
		if o.Impl {
			specMain(&s, &o, sb, pre, op, tbl-2)
		}
	default:
		o.Impl = op&7 == 6
		if o.Impl {
			specXYCB(&s, &o, sb, op, tbl-4, d)
		}
	}
	if !o.Impl {
		o.Kind = skInvalid
		if silicon {
			if !vSpecSiliconDefined(tbl, op) {
				o.S = s
				return o, false
			}
			switch tbl {
			case 2:
				y, z := (op>>3)&7, op&7
				switch {
				case z == 4:
					specED(&s, &o, sb, pre, 0x44)
				case z == 5:
					specED(&s, &o, sb, pre, 0x45)
				case z == 6:
					im := 0
					if y == 2 || y == 6 {
						im = 1
					} else if y == 3 || y == 7 {
						im = 2
					}
					s.IM = im
				case op == 0x70: // IN F,(C): flags only
					v := sb.In(s.BC.Lo)
					s.AF.Lo = pre.AF.Lo&sfC | specSZ53(v) | specParity(v)
				default: // OUT (C),0
					sb.Out(s.BC.Lo, 0)
				}
			case 3, 4:
				// the prefix has no effect on this instruction
				specMain(&s, &o, sb, pre, op, tbl-2)
			default:
				// rot/RES/SET (IX+d) with the result also copied to r[z]; BIT as usual
				specXYCB(&s, &o, sb, op|6, tbl-4, d)
				if op>>6 != 1 {
					a := specRel(specHLx(&pre, tbl-4), d)
					specSetR(&s, op&7, 0, sb.Peek(a))
				}
			}
			o.Kind = skInvalid
		}
	}
	o.S = s
	return o, true
}

// operand (HL) or (IX+d): address; fetches d when indexed
func specMemAddr(s *States, sb *vBus, ix int) uint16 {
	if ix == 0 {
		return specW(s.HL.Hi, s.HL.Lo)
	}
	d := specFetch(s, sb)
	return specRel(specHLx(s, ix), d)
}

func specMain(s *States, o *vSpecOut, sb *vBus, pre States, op, ix int) {
	x, y, z := op>>6, (op>>3)&7, op&7
	p, q := y>>1, y&1
	f := pre.AF.Lo
	switch x {
	case 0:
		switch z {
		case 0:
			switch y {
			case 0: // NOP
				o.Kind = skCtl
			case 1: // EX AF,AF'
				s.AF, s.Alternate.AF = pre.Alternate.AF, pre.AF
				o.Kind = skLoad
			case 2: // DJNZ
				o.Kind = skJump
				dd := specFetch(s, sb)
				s.BC.Hi = pre.BC.Hi - 1
				s.PC = vIteU16(s.BC.Hi != 0, specRel(s.PC, dd), s.PC)
			case 3: // JR
				o.Kind = skJump
				dd := specFetch(s, sb)
				s.PC = specRel(s.PC, dd)
			default: // JR cc
				o.Kind = skJump
				dd := specFetch(s, sb)
				s.PC = vIteU16(specCond(y-4, f), specRel(s.PC, dd), s.PC)
			}
		case 1:
			if q == 0 { // LD rp,nn
				o.Kind = skLoad
				specSetRP(s, p, ix, specFetch16(s, sb))
			} else { // ADD HL,rp
				o.Kind = skArith16
				a := specHLx(s, ix)
				b := specGetRP(s, p, ix)
				sum := uint32(a) + uint32(b)
				r := uint16(sum)
				h := (a&0xfff)+(b&0xfff) > 0xfff
				specSetHLx(s, ix, r)
				s.AF.Lo = f&(sfS|sfZ|sfPV) | specHi(r)&(sf5|sf3) | specB(h, sfH) | specB(sum > 0xffff, sfC)
			}
		case 2:
			o.Kind = skLoad
			switch y {
			case 0:
				sb.Set(specW(s.BC.Hi, s.BC.Lo), s.AF.Hi)
			case 2:
				sb.Set(specW(s.DE.Hi, s.DE.Lo), s.AF.Hi)
			case 4:
				nn := specFetch16(s, sb)
				v := specHLx(s, ix)
				sb.Set(nn, specLo(v))
				sb.Set(nn+1, specHi(v))
			case 6:
				nn := specFetch16(s, sb)
				sb.Set(nn, s.AF.Hi)
			case 1:
				s.AF.Hi = sb.Get(specW(s.BC.Hi, s.BC.Lo))
			case 3:
				s.AF.Hi = sb.Get(specW(s.DE.Hi, s.DE.Lo))
			case 5:
				nn := specFetch16(s, sb)
				specSetHLx(s, ix, specRead16(sb, nn))
			default:
				nn := specFetch16(s, sb)
				s.AF.Hi = sb.Get(nn)
			}
		case 3:
			o.Kind = skIncDec16
			if q == 0 {
				specSetRP(s, p, ix, specGetRP(s, p, ix)+1)
			} else {
				specSetRP(s, p, ix, specGetRP(s, p, ix)-1)
			}
		case 4, 5: // INC/DEC r[y]
			o.Kind = skALU8
			if y == 6 {
				a := specMemAddr(s, sb, ix)
				v := sb.Get(a)
				var r uint8
				if z == 4 {
					r, s.AF.Lo = specInc8(v, f)
				} else {
					r, s.AF.Lo = specDec8(v, f)
				}
				sb.Set(a, r)
			} else {
				v := specGetR(s, y, ix)
				var r uint8
				if z == 4 {
					r, s.AF.Lo = specInc8(v, f)
				} else {
					r, s.AF.Lo = specDec8(v, f)
				}
				specSetR(s, y, ix, r)
			}
		case 6: // LD r[y],n
			o.Kind = skLoad
			if y == 6 {
				a := specMemAddr(s, sb, ix)
				n := specFetch(s, sb)
				sb.Set(a, n)
			} else {
				specSetR(s, y, ix, specFetch(s, sb))
			}
		default:
			a := pre.AF.Hi
			switch y {
			case 0: // RLCA
				o.Kind = skRot
				c := a >> 7
				r := a<<1 | c
				s.AF.Hi = r
				s.AF.Lo = f&(sfS|sfZ|sfPV) | r&(sf5|sf3) | c
			case 1: // RRCA
				o.Kind = skRot
				c := a & 1
				r := a>>1 | c<<7
				s.AF.Hi = r
				s.AF.Lo = f&(sfS|sfZ|sfPV) | r&(sf5|sf3) | c
			case 2: // RLA
				o.Kind = skRot
				r := a<<1 | f&sfC
				s.AF.Hi = r
				s.AF.Lo = f&(sfS|sfZ|sfPV) | r&(sf5|sf3) | a>>7
			case 3: // RRA
				o.Kind = skRot
				r := a>>1 | (f&sfC)<<7
				s.AF.Hi = r
				s.AF.Lo = f&(sfS|sfZ|sfPV) | r&(sf5|sf3) | a&1
			case 4: // DAA
				o.Kind = skALU8
				lo := a & 15
				cf := f&sfC != 0
				hf := f&sfH != 0
				nfl := f&sfN != 0
				var diff uint8
				diff = specB(vOr(hf, lo > 9), 0x06) | specB(vOr(cf, a > 0x99), 0x60)
				r := vIteU8(nfl, a-diff, a+diff)
				c2 := vOr(cf, a > 0x99)
				h2 := vIteBool(nfl, vAnd(hf, lo < 6), lo > 9)
				s.AF.Hi = r
				s.AF.Lo = f&sfN | specSZ53(r) | specParity(r) | specB(h2, sfH) | specB(c2, sfC)
			case 5: // CPL
				o.Kind = skALU8
				r := ^a
				s.AF.Hi = r
				s.AF.Lo = f&(sfS|sfZ|sfPV|sfC) | r&(sf5|sf3) | sfH | sfN
			case 6: // SCF
				o.Kind = skALU8
				// bits 5/3: chips differ (not compared); the value produced is the
				// classic NMOS one (from A) so that zexall runs on the model
				s.AF.Lo = f&(sfS|sfZ|sfPV) | sfC | a&(sf5|sf3)
				o.FMask = 0xff &^ (sf5 | sf3)
			default: // CCF
				o.Kind = skALU8
				s.AF.Lo = f&(sfS|sfZ|sfPV) | specB(f&sfC != 0, sfH) | specB(f&sfC == 0, sfC) | a&(sf5|sf3)
				o.FMask = 0xff &^ (sf5 | sf3)
			}
		}
	case 1:
		if op == 0x76 { // HALT
			o.Kind = skCtl
			s.PC = pre.PC
			o.HaltSet = true
			return
		}
		o.Kind = skLoad
		if y == 6 { // LD (HL),r
			a := specMemAddr(s, sb, ix)
			sb.Set(a, specGetR(s, z, 0))
		} else if z == 6 { // LD r,(HL)
			a := specMemAddr(s, sb, ix)
			specSetR(s, y, 0, sb.Get(a))
		} else {
			specSetR(s, y, ix, specGetR(s, z, ix))
		}
	case 2: // alu[y] A,r[z]
		o.Kind = skALU8
		var v uint8
		if z == 6 {
			v = sb.Get(specMemAddr(s, sb, ix))
		} else {
			v = specGetR(s, z, ix)
		}
		s.AF.Hi, s.AF.Lo = specALU(y, pre.AF.Hi, v, f)
	default:
		switch z {
		case 0: // RET cc
			o.Kind = skRet
			if vCase(specCond(y, f)) {
				s.PC = specPop(s, sb)
			}
		case 1:
			if q == 0 { // POP rp2
				o.Kind = skStack
				v := specPop(s, sb)
				if p == 3 {
					s.AF.Hi, s.AF.Lo = specHi(v), specLo(v)
				} else {
					specSetRP(s, p, ix, v)
				}
			} else {
				switch p {
				case 0: // RET
					o.Kind = skRet
					s.PC = specPop(s, sb)
				case 1: // EXX
					o.Kind = skLoad
					s.BC, s.Alternate.BC = pre.Alternate.BC, pre.BC
					s.DE, s.Alternate.DE = pre.Alternate.DE, pre.DE
					s.HL, s.Alternate.HL = pre.Alternate.HL, pre.HL
				case 2: // JP (HL)
					o.Kind = skJump
					s.PC = specHLx(s, ix)
				default: // LD SP,HL
					o.Kind = skLoad
					s.SP = specHLx(s, ix)
				}
			}
		case 2: // JP cc,nn
			o.Kind = skJump
			nn := specFetch16(s, sb)
			s.PC = vIteU16(specCond(y, f), nn, s.PC)
		case 3:
			switch y {
			case 0: // JP nn
				o.Kind = skJump
				s.PC = specFetch16(s, sb)
			case 2: // OUT (n),A
				o.Kind = skIO
				n := specFetch(s, sb)
				sb.Out(n, s.AF.Hi)
			case 3: // IN A,(n)
				o.Kind = skIO
				n := specFetch(s, sb)
				s.AF.Hi = sb.In(n)
			case 4: // EX (SP),HL
				o.Kind = skStack
				l := sb.Get(s.SP)
				h := sb.Get(s.SP + 1)
				v := specHLx(s, ix)
				sb.Set(s.SP+1, specHi(v))
				sb.Set(s.SP, specLo(v))
				specSetHLx(s, ix, specW(h, l))
			case 5: // EX DE,HL
				o.Kind = skLoad
				s.DE, s.HL = pre.HL, pre.DE
			case 6: // DI
				o.Kind = skCtl
				s.IFF1, s.IFF2 = false, false
			case 7: // EI
				o.Kind = skCtl
				s.IFF1, s.IFF2 = true, true
			default:
				panic("prefix CB in specMain")
			}
		case 4: // CALL cc,nn
			o.Kind = skCall
			nn := specFetch16(s, sb)
			if vCase(specCond(y, f)) {
				specPush(s, sb, s.PC)
				s.PC = nn
			}
		case 5:
			if q == 0 { // PUSH rp2
				o.Kind = skStack
				var v uint16
				if p == 3 {
					v = specW(s.AF.Hi, s.AF.Lo)
				} else {
					v = specGetRP(s, p, ix)
				}
				specPush(s, sb, v)
			} else {
				if p != 0 {
					panic("prefix in specMain")
				}
				o.Kind = skCall
				nn := specFetch16(s, sb)
				specPush(s, sb, s.PC)
				s.PC = nn
			}
		case 6: // alu[y] A,n
			o.Kind = skALU8
			n := specFetch(s, sb)
			s.AF.Hi, s.AF.Lo = specALU(y, pre.AF.Hi, n, f)
		default: // RST
			o.Kind = skCall
			specPush(s, sb, s.PC)
			s.PC = uint16(y * 8)
		}
	}
}

func specCB(s *States, o *vSpecOut, sb *vBus, op int) {
	x, y, z := op>>6, (op>>3)&7, op&7
	f := s.AF.Lo
	var v uint8
	var a uint16
	if z == 6 {
		a = specW(s.HL.Hi, s.HL.Lo)
		v = sb.Get(a)
	} else {
		v = specGetR(s, z, 0)
	}
	var r uint8
	switch x {
	case 0:
		o.Kind = skRot
		r, s.AF.Lo = specRot(y, v, f)
	case 1:
		o.Kind = skBit
		bit := v&(1<<uint(y)) != 0
		fl := f&sfC | sfH | specB(!bit, sfZ|sfPV)
		if y == 7 {
			fl |= specB(bit, sfS)
		}
		if z == 6 {
			o.FMask = 0xff &^ (sf5 | sf3)
		} else {
			fl |= v & (sf5 | sf3)
		}
		s.AF.Lo = fl
		return
	case 2:
		o.Kind = skBit
		r = v &^ (1 << uint(y))
	default:
		o.Kind = skBit
		r = v | 1<<uint(y)
	}
	if z == 6 {
		sb.Set(a, r)
	} else {
		specSetR(s, z, 0, r)
	}
}

func specXYCB(s *States, o *vSpecOut, sb *vBus, op, ix int, d uint8) {
	x, y := op>>6, (op>>3)&7
	f := s.AF.Lo
	a := specRel(specHLx(s, ix), d)
	v := sb.Get(a)
	var r uint8
	switch x {
	case 0:
		o.Kind = skRot
		r, s.AF.Lo = specRot(y, v, f)
	case 1:
		o.Kind = skBit
		bit := v&(1<<uint(y)) != 0
		fl := f&sfC | sfH | specB(!bit, sfZ|sfPV)
		if y == 7 {
			fl |= specB(bit, sfS)
		}
		o.FMask = 0xff &^ (sf5 | sf3)
		s.AF.Lo = fl
		return
	case 2:
		o.Kind = skBit
		r = v &^ (1 << uint(y))
	default:
		o.Kind = skBit
		r = v | 1<<uint(y)
	}
	sb.Set(a, r)
}

func specED(s *States, o *vSpecOut, sb *vBus, pre States, op int) {
	x, y, z := op>>6, (op>>3)&7, op&7
	p, q := y>>1, y&1
	f := pre.AF.Lo
	if x == 1 {
		switch z {
		case 0: // IN r,(C)
			o.Kind = skIO
			v := sb.In(s.BC.Lo)
			specSetR(s, y, 0, v)
			s.AF.Lo = f&sfC | specSZ53(v) | specParity(v)
		case 1: // OUT (C),r
			o.Kind = skIO
			sb.Out(s.BC.Lo, specGetR(s, y, 0))
		case 2: // SBC/ADC HL,rp
			o.Kind = skArith16
			a := specW(s.HL.Hi, s.HL.Lo)
			b := specGetRP(s, p, 0)
			c := uint32(f & sfC)
			var r uint16
			var fl uint8
			if q == 1 { // ADC
				sum := uint32(a) + uint32(b) + c
				r = uint16(sum)
				h := uint32(a&0xfff)+uint32(b&0xfff)+c > 0xfff
				ss := int32(int16(a)) + int32(int16(b)) + int32(c)
				ov := vOr(ss > 32767, ss < -32768)
				fl = specB(h, sfH) | specB(ov, sfPV) | specB(sum > 0xffff, sfC)
			} else { // SBC
				diff := int32(a) - int32(b) - int32(c)
				r = uint16(diff)
				h := int32(a&0xfff)-int32(b&0xfff)-int32(c) < 0
				ss := int32(int16(a)) - int32(int16(b)) - int32(c)
				ov := vOr(ss > 32767, ss < -32768)
				fl = specB(h, sfH) | specB(ov, sfPV) | sfN | specB(diff < 0, sfC)
			}
			fl |= specHi(r)&(sfS|sf5|sf3) | specB(r == 0, sfZ)
			s.HL.Hi, s.HL.Lo = specHi(r), specLo(r)
			s.AF.Lo = fl
		case 3:
			o.Kind = skLoad
			nn := specFetch16(s, sb)
			if q == 0 { // LD (nn),rp
				v := specGetRP(s, p, 0)
				sb.Set(nn, specLo(v))
				sb.Set(nn+1, specHi(v))
			} else {
				specSetRP(s, p, 0, specRead16(sb, nn))
			}
		case 4: // NEG
			o.Kind = skALU8
			a := pre.AF.Hi
			r := 0 - a
			s.AF.Hi = r
			s.AF.Lo = specSZ53(r) | specB(a&15 != 0, sfH) | specB(a == 0x80, sfPV) | sfN | specB(a != 0, sfC)
		case 5: // RETN / RETI
			o.Kind = skRet
			s.PC = specPop(s, sb)
			if op == 0x45 {
				s.IFF1 = pre.IFF2
			} else {
				o.IFF1AltOK = true
				o.IFF1Alt = pre.IFF2
			}
		case 6: // IM
			o.Kind = skCtl
			switch op {
			case 0x46:
				s.IM = 0
			case 0x56:
				s.IM = 1
			default:
				s.IM = 2
			}
		default:
			switch y {
			case 0: // LD I,A
				o.Kind = skIR
				s.IR.Hi = s.AF.Hi
			case 1: // LD R,A
				o.Kind = skIR
				s.IR.Lo = s.AF.Hi
			case 2: // LD A,I
				o.Kind = skIR
				v := s.IR.Hi
				s.AF.Hi = v
				s.AF.Lo = f&sfC | specSZ53(v) | specB(pre.IFF2, sfPV)
			case 3: // LD A,R
				o.Kind = skIR
				v := s.IR.Lo
				s.AF.Hi = v
				s.AF.Lo = f&sfC | specSZ53(v) | specB(pre.IFF2, sfPV)
			case 4: // RRD
				o.Kind = skRot
				a := specW(s.HL.Hi, s.HL.Lo)
				m := sb.Get(a)
				acc := pre.AF.Hi
				na := acc&0xf0 | m&0x0f
				sb.Set(a, acc<<4|m>>4)
				s.AF.Hi = na
				s.AF.Lo = f&sfC | specSZ53(na) | specParity(na)
			default: // RLD
				o.Kind = skRot
				a := specW(s.HL.Hi, s.HL.Lo)
				m := sb.Get(a)
				acc := pre.AF.Hi
				na := acc&0xf0 | m>>4
				sb.Set(a, m<<4|acc&0x0f)
				s.AF.Hi = na
				s.AF.Lo = f&sfC | specSZ53(na) | specParity(na)
			}
		}
		return
	}
	// block instructions: x == 2, y in 4..7, z in 0..3
	o.Kind = skBlock
	var step uint16 = 1
	if y&1 == 1 {
		step = 0xffff
	}
	rep := y >= 6
	hl := specW(s.HL.Hi, s.HL.Lo)
	bc := specW(s.BC.Hi, s.BC.Lo)
	switch z {
	case 0: // LDI LDD LDIR LDDR
		de := specW(s.DE.Hi, s.DE.Lo)
		v := sb.Get(hl)
		sb.Set(de, v)
		hl += step
		de += step
		bc--
		s.HL.Hi, s.HL.Lo = specHi(hl), specLo(hl)
		s.DE.Hi, s.DE.Lo = specHi(de), specLo(de)
		s.BC.Hi, s.BC.Lo = specHi(bc), specLo(bc)
		n := pre.AF.Hi + v
		s.AF.Lo = f&(sfS|sfZ|sfC) | specB(bc != 0, sfPV) | n&sf3 | specB(n&0x02 != 0, sf5)
		if rep {
			s.PC = vIteU16(bc != 0, pre.PC, s.PC)
		}
	case 1: // CPI CPD CPIR CPDR
		v := sb.Get(hl)
		a := pre.AF.Hi
		t := a - v
		hb := a&15 < v&15
		hl += step
		bc--
		s.HL.Hi, s.HL.Lo = specHi(hl), specLo(hl)
		s.BC.Hi, s.BC.Lo = specHi(bc), specLo(bc)
		n := t - specB(hb, 1)
		s.AF.Lo = f&sfC | specSZ(t) | specB(hb, sfH) | specB(bc != 0, sfPV) | sfN | n&sf3 | specB(n&0x02 != 0, sf5)
		if rep {
			s.PC = vIteU16(vAnd(bc != 0, t != 0), pre.PC, s.PC)
		}
	case 2: // INI IND INIR INDR
		v := sb.In(s.BC.Lo)
		sb.Set(hl, v)
		hl += step
		b := pre.BC.Hi - 1
		s.BC.Hi = b
		s.HL.Hi, s.HL.Lo = specHi(hl), specLo(hl)
		s.AF.Lo = specB(b == 0, sfZ) | sfN
		o.FMask = sfZ | sfN
		if rep {
			s.PC = vIteU16(b != 0, pre.PC, s.PC)
		}
	default: // OUTI OUTD OTIR OTDR
		v := sb.Get(hl)
		sb.Out(s.BC.Lo, v)
		hl += step
		b := pre.BC.Hi - 1
		s.BC.Hi = b
		s.HL.Hi, s.HL.Lo = specHi(hl), specLo(hl)
		s.AF.Lo = specB(b == 0, sfZ) | sfN
		o.FMask = sfZ | sfN
		if rep {
			s.PC = vIteU16(b != 0, pre.PC, s.PC)
		}
	}
}
